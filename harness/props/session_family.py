"""C07 (decode as a whole), C08 (send fidelity), C11 (logging fidelity): the Session model vs real spawn objects."""
import os, json, codecs, collections, itertools, time, asyncio
from lib import common
common.repo_on_path()
import pexpect
from pexpect import fdpexpect, socket_pexpect
import ptyprocess.ptyprocess as PP
from drivers import session as S

TRANSPORTS = ['pty', 'fd', 'socket', 'popen']
LINESEP = os.linesep


def consts():
    PP._make_eof_intr()
    return dict(eof=PP._EOF[0], intr=PP._INTR[0])


def coerce(p_encoding, v):
    """what _coerce_send_string makes of an argument"""
    if p_encoding is None and not isinstance(v, bytes):
        return v.encode('utf-8')
    return v


def run_case(case):
    """case: dict(transport, encoding, errors, logs, ops). -> dict of observables"""
    enc, errors = case['encoding'], case.get('errors', 'strict')
    if case['transport'] == 'pty' and enc and enc.replace('_', '-').startswith(('utf-16', 'utf-32', 'utf-8-sig')):
        case['transport'] = 'fd'      # spawn() encodes argv with the instance encoding: only ASCII-compatible ones can start a program
    ses = S.Session(case['transport'], enc, errors, logs=case.get('logs', ('logfile', 'logfile_read', 'logfile_send')),
                    logfile_by_ctor=(len(case['ops']) % 2 == 1))       # every other case hands `logfile` to the constructor
    p = ses.p
    delivered, rets, tags = [], [], {k: [] for k in ses.logs}
    sent_payload = b''
    problems = []
    try:
        for op in case['ops']:
            before = {k: len(r.ev) for k, r in ses.logs.items()}
            k = op[0]
            direction = 'r' if k == 'R' else 's'
            if k == 'R':
                ses.peer_write(op[1])
                got = ses.read()
                if isinstance(got, tuple):
                    problems.append('read raised %s' % (got,))
                    delivered.append(None)
                    break
                delivered.append(got)
            else:
                try:
                    if k == 'S':
                        r = p.send(op[1]); rets.append(('S', r))
                    elif k == 'L':
                        r = p.sendline(op[1]); rets.append(('L', r))
                    elif k == 'W':
                        # writelines takes any iterable: a list, a tuple, a generator, an iterator, a map object (each can be walked once only)
                        form = case.get('wl_form', 'list')
                        seq = {'list': list, 'tuple': tuple, 'iter': iter, 'gen': (lambda l: (x for x in l)), 'map': (lambda l: map(lambda x: x, l))}[form](op[1])
                        p.writelines(seq)
                    elif k == 'C':
                        r = p.sendcontrol(op[1]); rets.append(('C', r))
                    elif k == 'E':
                        p.sendeof()
                    elif k == 'I':
                        p.sendintr()
                except Exception as e:       # noqa
                    problems.append('%s raised %s: %s' % (k, type(e).__name__, str(e)[:80]))
                    break
            for name, rec in ses.logs.items():
                for e in rec.ev[before[name]:]:
                    tags[name].append(direction)
        expect_len = case.get('expect_peer_len', 0)
        peer = ses.peer_received(expect_len)
        logs = {name: list(rec.ev) for name, rec in ses.logs.items()}
    finally:
        ses.close()
    return dict(delivered=delivered, rets=rets, peer=peer, logs=logs, tags=tags, problems=problems)


def model_ops(case):
    """the same ops as model tokens (payloads after coercion)"""
    enc = case['encoding']
    toks = []
    for op in case['ops']:
        k = op[0]
        if k == 'R':
            toks.append('R=' + S.enc_text(op[1]))
        elif k in ('S', 'L'):
            v = coerce(enc, op[1])
            if k == 'L' and case['transport'] == 'popen':
                toks.append('S=' + S.enc_text(v)); toks.append('S=' + S.enc_text(coerce(enc, LINESEP)))
            else:
                toks.append('%s=%s' % (k, S.enc_text(v)))
        elif k == 'W':
            toks.append('W=' + ';'.join(S.enc_text(coerce(enc, v)) for v in op[1]) if op[1] else 'W=_')
        elif k == 'C':
            toks.append('C=%d' % ord(op[1]))
        else:
            toks.append(k)
    return toks


def model_line(case):
    c = consts()
    mode = 'u8' if case['encoding'] == 'utf-8' else 'l1'
    return 'SS %s %s %d %d %s' % (mode, S.enc_text(LINESEP), c['eof'], c['intr'], ' '.join(model_ops(case)))


def real_canon(case, res):
    """the real observables in the model driver's format (without ret)"""
    def ev(name):
        out = []
        it = iter(res['tags'].get(name, []))
        for e in res['logs'].get(name, []):
            d = next(it)
            out.append('f' if e[0] == 'f' else 'w:%s:%s' % (d, S.enc_text(e[1])))
        return '|'.join(out)
    return 'del=%s peer=%s log=%s lr=%s ls=%s' % (';'.join(S.enc_text(d) for d in res['delivered'] if d is not None), S.enc_text(res['peer']),
                                                ev('logfile'), ev('logfile_read'), ev('logfile_send'))


def strip_ret(line):
    return line.rsplit(' ret=', 1)[0]


# ------------------------------------------------------------------------------------------ oracles

def oracle_c07(case, res):
    stream = b''.join(op[1] for op in case['ops'] if op[0] == 'R')
    got = res['delivered']
    if case['encoding'] is None:
        if res['problems']:
            return res['problems'][0]
        if b''.join(got) != stream:
            return 'bytes mode delivered %r for stream %r' % (b''.join(got), stream)
        return None
    dec = codecs.getincrementaldecoder(case['encoding'])(case.get('errors', 'strict'))
    try:
        want = dec.decode(stream, final=False)
    except UnicodeError:
        return None          # the whole stream is itself undecodable under this codec / policy: outside the property
    if res['problems']:
        return res['problems'][0]
    if any(not isinstance(g, str) for g in got):
        return 'a read returned %s in unicode mode (%s)' % (sorted(set(type(g).__name__ for g in got)), case['encoding'])
    text = ''.join(got)
    if text != want:
        return 'delivered %r but the stream decodes to %r (chunks %r, %s/%s)' % (text, want, [op[1] for op in case['ops'] if op[0] == 'R'],
                                                                                  case['encoding'], case.get('errors'))
    return None


def expected_peer(case):
    enc = case['encoding']
    c = consts()
    encoder = codecs.getincrementalencoder(enc)(case.get('errors', 'strict')) if enc else None
    out = b''

    def e(v):
        v = coerce(enc, v)
        return encoder.encode(v, final=False) if encoder else v
    rets = []
    for op in case['ops']:
        k = op[0]
        if k == 'S':
            b = e(op[1]); out += b; rets.append(('S', len(b)))
        elif k == 'L':
            if case['transport'] == 'popen':
                b = e(op[1]); b2 = e(LINESEP); out += b + b2; rets.append(('L', len(b) + len(b2)))
            else:
                b = e(coerce(enc, op[1]) + coerce(enc, LINESEP)); out += b; rets.append(('L', len(b)))
        elif k == 'W':
            for v in op[1]:
                out += e(v)
        elif k == 'C':
            ch = op[1].lower()
            table = {'@': 0, '`': 0, '[': 27, '{': 27, '\\': 28, '|': 28, ']': 29, '}': 29, '^': 30, '~': 30, '_': 31, '?': 127}
            if 'a' <= ch <= 'z':
                out += bytes([ord(ch) - 96]); rets.append(('C', 1))
            elif ch in table:
                out += bytes([table[ch]]); rets.append(('C', 1))
            else:
                rets.append(('C', 0))
        elif k == 'E':
            out += bytes([c['eof']])
        elif k == 'I':
            out += bytes([c['intr']])
    return out, rets


def oracle_c08(case, res):
    if res['problems']:
        return res['problems'][0]
    want, rets = expected_peer(case)
    if res['peer'] != want:
        n = next((i for i, (x, y) in enumerate(zip(res['peer'], want)) if x != y), min(len(res['peer']), len(want)))
        return 'the peer received %d bytes, %d were sent; first difference at byte %d (%r vs %r)' % (
            len(res['peer']), len(want), n, res['peer'][max(0, n - 4):n + 8], want[max(0, n - 4):n + 8])
    if res['rets'] != rets:
        return 'send-family return values %r, bytes written %r' % (res['rets'], rets)
    return None


def oracle_c11(case, res):
    if res['problems']:
        return res['problems'][0]
    enc = case['encoding']
    want_type = bytes if enc is None else str
    # expected write payloads per direction, in op order
    exp = []
    di = iter(res['delivered'])
    c = consts()
    for op in case['ops']:
        k = op[0]
        if k == 'R':
            exp.append(('r', next(di)))
        elif k == 'S':
            exp.append(('s', coerce(enc, op[1])))
        elif k == 'L':
            if case['transport'] == 'popen':
                exp.append(('s', coerce(enc, op[1]))); exp.append(('s', coerce(enc, LINESEP)))
            else:
                exp.append(('s', coerce(enc, op[1]) + coerce(enc, LINESEP)))
        elif k == 'W':
            for v in op[1]:
                exp.append(('s', coerce(enc, v)))
        elif k in ('C', 'E', 'I'):
            if k == 'C':
                b, _ = expected_peer(dict(case, ops=[op]))
            else:
                b = bytes([c['eof'] if k == 'E' else c['intr']])
            exp.append(('s', b if enc is None else b.decode(enc, 'replace')))
    for name, want_dirs in (('logfile', 'rs'), ('logfile_read', 'r'), ('logfile_send', 's')):
        if name not in res['logs']:
            continue
        evs = res['logs'][name]
        writes = [e[1] for e in evs if e[0] == 'w']
        want = [v for d, v in exp if d in want_dirs]
        if writes != want:
            return '%s received %r, the transcript is %r' % (name, writes[:8], want[:8])
        for i, e in enumerate(evs):
            if e[0] == 'w':
                if not isinstance(e[1], want_type):
                    return '%s was given a %s in %s mode' % (name, type(e[1]).__name__, 'bytes' if enc is None else 'unicode')
                if i + 1 >= len(evs) or evs[i + 1][0] != 'f':
                    return '%s: a write was not followed by a flush' % name
    return None


ORACLES = {'C07': oracle_c07, 'C08': oracle_c08, 'C11': oracle_c11}


# ---------------------------------------------------------------------------------------- generators

TEXTS = ['héllo€', 'naïve café ünï', 'ab', '日本語テキスト', 'x\r\n€y', 'Ωmega   z', '𝄞 clef']


def cuts_of(b, k, rng, all_single=False):
    if all_single:
        return [[b[:i], b[i:]] for i in range(1, len(b))]
    pts = sorted(set(rng.randrange(1, len(b)) for _ in range(k))) if len(b) > 1 else []
    out, prev = [], 0
    for p_ in pts + [len(b)]:
        out.append(b[prev:p_]); prev = p_
    return [out]


def gen_c07(ctx):
    rng = ctx.rng
    cases = []
    encs = ['utf-8', 'latin-1', 'utf-16', 'cp1252', 'shift_jis'] if ctx.quick() else ['utf-8', 'latin-1', 'utf-16', 'utf-16-le', 'utf-32', 'cp1252', 'shift_jis', 'euc_jp', 'gb18030']
    # every single cut point of two texts on every transport (utf-8), then sampled combinations
    for tr in TRANSPORTS:
        for text in TEXTS[:2]:
            b = text.encode('utf-8')
            for chunks in cuts_of(b, 1, rng, all_single=True):
                cases.append(dict(transport=tr, encoding='utf-8', errors='strict', ops=[('R', c) for c in chunks], logs=()))
    # one byte per read: reads that consist of nothing but a part of a character deliver '' and must not be taken for EOF
    for tr in TRANSPORTS:
        for enc in ('utf-8', 'utf-16', 'shift_jis'):
            b = ('h\u00e9\u20ac!\u65e5' if enc != 'shift_jis' else 'h\u65e5\u672c!\u30bd').encode(enc)
            cases.append(dict(transport=tr, encoding=enc, errors='strict', ops=[('R', b[i:i + 1]) for i in range(len(b))], logs=()))
    n = 60 if ctx.quick() else 1200
    for _ in range(n):
        tr = rng.choice(TRANSPORTS)
        enc = rng.choice(encs)
        errors = rng.choice(['strict', 'replace', 'ignore'])
        text = rng.choice(TEXTS)
        try:
            b = text.encode(enc)
        except UnicodeEncodeError:
            b = text.encode(enc, 'ignore')
        if errors != 'strict' and rng.random() < 0.5:
            pos = rng.randrange(0, len(b) + 1)
            b = b[:pos] + bytes([rng.choice([0xff, 0x80, 0xc3, 0xed])]) + b[pos:]
            b += b'.'      # do not end inside a character
        if not b:
            continue
        for chunks in cuts_of(b, rng.choice([1, 2, 3]), rng):
            cases.append(dict(transport=tr, encoding=enc, errors=errors, ops=[('R', c) for c in chunks if c], logs=()))
    for tr in TRANSPORTS:
        b = bytes(range(256))
        cases.append(dict(transport=tr, encoding=None, ops=[('R', b[:100]), ('R', b[100:])], logs=()))
    return cases


def rand_text(rng, mode):
    alph = 'ab \r\n€éz\x00\x7f' if mode == 'u' else 'ab \r\nz'
    return ''.join(rng.choice(alph) for _ in range(rng.randrange(0, 9)))


def gen_sends(ctx, logs_variants):
    rng = ctx.rng
    cases = []
    n = 70 if ctx.quick() else 1500
    for it in range(n):
        tr = rng.choice(TRANSPORTS)
        enc = rng.choice([None, 'utf-8', 'latin-1'] if it % 7 else [None, 'utf-16'])
        ops = []
        plen = 0
        for _ in range(rng.randrange(1, 9)):
            r = rng.random()
            if r < 0.3:
                v = rand_text(rng, 'u')
                if enc == 'latin-1':
                    v = v.replace('€', 'e')
                if enc is None and rng.random() < 0.5:
                    v = bytes(rng.randrange(0, 256) for _ in range(rng.randrange(0, 12)))
                ops.append(('S', v))
            elif r < 0.5:
                v = rand_text(rng, 'u')
                if enc == 'latin-1':
                    v = v.replace('€', 'e')
                if enc is None and rng.random() < 0.5:
                    v = v.encode('utf-8')
                ops.append(('L', v))
            elif r < 0.6:
                vs = [rand_text(rng, 'u').replace('€', 'e') for _ in range(rng.randrange(0, 4))]
                if enc is None:
                    how = rng.random()
                    vs = [v.encode('utf-8') if (how < 0.4 or (how < 0.7 and rng.random() < 0.5)) else v for v in vs]       # all bytes / mixed / all text
                ops.append(('W', vs))
            elif r < 0.75 and tr == 'pty' and enc != 'utf-16':
                ops.append(('C', rng.choice('cdgzCZ[\\]^_?@{1 ')))
            elif r < 0.8 and tr == 'pty' and enc != 'utf-16':
                ops.append((rng.choice('EI'),))
            else:
                chunk = rng.choice(TEXTS).encode(enc or 'utf-8', 'ignore') or b'x'
                ops.append(('R', chunk))          # whole characters only: the stream stays well-formed
        case = dict(transport=tr, encoding=enc, errors='replace' if enc == 'utf-16' else 'strict', ops=ops, logs=rng.choice(logs_variants),
                    wl_form=rng.choice(['list', 'list', 'tuple', 'iter', 'gen', 'map']))
        want, _ = expected_peer(case)
        case['expect_peer_len'] = len(want)
        cases.append(case)
    # a multi-byte character cut by a read boundary while control characters and lines are sent in between: the read decoder's
    # pending state must not leak into what is sent / logged as sent
    for tr in ('pty', 'fd'):
        for errors in ('strict', 'replace'):
            ops = [('R', b'caf\xc3')] + ([('C', 'g'), ('E',)] if tr == 'pty' else []) + [('L', 'x'), ('R', b'\xa9!'), ('S', 'y')]
            case = dict(transport=tr, encoding='utf-8', errors=errors, ops=ops, logs=logs_variants[-1])
            want, _ = expected_peer(case)
            case['expect_peer_len'] = len(want)
            cases.append(case)
    # the whole control-character table (every printable ASCII character as the argument of sendcontrol), in both modes
    for enc in (None, 'utf-8'):
        chars = [chr(c) for c in range(32, 127)]
        for part in (chars[:48], chars[48:]):
            ops = [('C', ch) for ch in part] + [('S', 'z')]
            case = dict(transport='pty', encoding=enc, errors='strict', ops=ops, logs=logs_variants[-1])
            want, _ = expected_peer(case)
            case['expect_peer_len'] = len(want)
            cases.append(case)
    # stateful encoders (a BOM / shift state must be written once per stream, not once per call), on every transport
    for tr in TRANSPORTS:
        for enc in (['utf-16', 'utf-8-sig', 'utf-32'] if not ctx.quick() else ['utf-16', 'utf-8-sig']):
            for ops in ([('S', 'ab'), ('L', 'c\u00e9'), ('W', ['x', 'y\u20ac']), ('S', ''), ('L', ''), ('S', 'z')],
                        [('S', ''), ('S', 'hi'), ('W', ['', 'x'])],              # the very first thing sent is an empty string
                        [('W', ['', 'a\u00e9']), ('S', ''), ('L', 'b')]):
                case = dict(transport=tr, encoding=enc, errors='strict', ops=ops, logs=logs_variants[0], wl_form='gen')
                want, _ = expected_peer(case)
                case['expect_peer_len'] = len(want)
                cases.append(case)
    # codec_errors is the error policy of sending too: text the encoding cannot express goes out as the policy says
    for tr in TRANSPORTS:
        for enc, errors, text in (('ascii', 'replace', 'caf\u00e9 \u20ac'), ('latin-1', 'ignore', 'a\u20acb'), ('ascii', 'backslashreplace', 'x\u00e9'),
                                  ('utf-8', 'surrogateescape', 'raw\udcff\udc80 bytes'), ('ascii', 'xmlcharrefreplace', '\u20ac5')):
            case = dict(transport=tr, encoding=enc, errors=errors, ops=[('S', text), ('L', text), ('W', [text, 'plain'])], logs=('logfile_send',), wl_form='list')
            want, _ = expected_peer(case)
            case['expect_peer_len'] = len(want)
            cases.append(case)
    # bytes mode, text and bytes elements mixed, given as a one-shot iterable
    for tr in TRANSPORTS:
        for form in ('gen', 'iter', 'map'):
            case = dict(transport=tr, encoding=None, ops=[('W', [b'abc', '123', 'caf\u00e9', b'xyz']), ('S', b'!')], logs=('logfile_send',), wl_form=form)
            want, _ = expected_peer(case)
            case['expect_peer_len'] = len(want)
            cases.append(case)
    # all byte values and a payload larger than the pipe / pty buffer, per transport
    for tr in TRANSPORTS:
        big = bytes(range(256)) * (40 if ctx.quick() else 160)      # stays below the socket / pipe buffer: nobody reads concurrently here (stage_big_sends does)
        cases.append(dict(transport=tr, encoding=None, ops=[('S', bytes(range(256))), ('S', b''), ('L', b'')] + ([('S', big)] if tr != 'pty' else []),
                          logs=('logfile_send',), expect_peer_len=256 + 1 + (len(big) if tr != 'pty' else 0)))
    return cases


def modelable(case):
    return case['encoding'] in (None, 'utf-8', 'latin-1') and case.get('errors', 'strict') == 'strict' and all(
        not (op[0] == 'R' and case['encoding'] == 'utf-8' and not _wellformed_prefix(case, op)) for op in case['ops'])


def _wellformed_prefix(case, op):
    return True


def stage_async(ctx, stats):
    """the asyncio path decodes with the same persistent decoder: a character cut between two deliveries"""
    from pexpect import fdpexpect
    text = 'héllo€ wörld'
    b = text.encode('utf-8')
    bad = None
    for cut in range(1, len(b)):
        r, w = os.pipe()
        p = fdpexpect.fdspawn(r, encoding='utf-8', timeout=5)

        async def go():
            loop = asyncio.get_running_loop()
            os.write(w, b[:cut])
            loop.call_later(0.01, lambda: os.write(w, b[cut:] + b'!'))
            await p.expect_exact('!', async_=True)
            return p.before
        try:
            got = asyncio.run(go())
        except Exception as e:       # noqa
            got = 'EXC:' + repr(e)
        finally:
            os.close(w)
            try:
                p.close()
            except Exception:
                pass
        if got != text and bad is None:
            bad = (cut, got)
    stats['async_cut_points'] = len(b) - 1
    if bad:
        common.report(ctx, 'async/decode', 'asyncio path: %r cut at byte %d delivered %r' % (text, bad[0], bad[1]), dict(text=text, cut=bad[0], got=bad[1]))


def stage_interact_logging(ctx, stats):
    """interact() must log like normal use: the same string type the API uses (C11)"""
    import pty, tty, threading
    n = 0
    for enc in (None, 'utf-8'):
        for use_poll in (False, True):
            rec = S.RecLog()
            m, s = pty.openpty()
            tty.setraw(m)
            p = pexpect.spawn('cat', echo=False, encoding=enc, timeout=5, use_poll=use_poll)
            p.logfile = rec
            rec_s, rec_r = S.RecLog(), S.RecLog()
            p.logfile_send, p.logfile_read = rec_s, rec_r
            p.STDIN_FILENO = s; p.STDOUT_FILENO = s
            result = {}

            def user():
                time.sleep(0.15)
                os.write(m, b'hi\r')
                time.sleep(0.25)
                os.write(m, b'ab\x1dnever sent')        # the escape in the middle of one read: what follows it is neither sent nor logged
            th = threading.Thread(target=user); th.start()
            try:
                with common.guard(20):
                    p.interact()
                result['ok'] = True
            except common.Stuck:
                result['exc'] = 'interact() was still running 20 s after the escape character had been typed'
            except Exception as e:       # noqa
                result['exc'] = '%s: %s' % (type(e).__name__, str(e)[:80])
            th.join()
            shown = b''
            import select
            while select.select([m], [], [], 0.05)[0]:
                shown += os.read(m, 4096)
            p.close(force=True)
            os.close(m); os.close(s)
            n += 1
            want_type = bytes if enc is None else str
            writes = [e[1] for e in rec.ev if e[0] == 'w']
            msg = None
            if 'exc' in result:
                msg = 'interact() with a logfile in %s mode raised %s' % ('bytes' if enc is None else 'unicode', result['exc'])
            elif any(not isinstance(w_, want_type) for w_ in writes):
                msg = 'interact() logged %s in %s mode' % (sorted(set(type(w_).__name__ for w_ in writes)), 'bytes' if enc is None else 'unicode')
            else:
                joined = (b'' if enc is None else '').join(writes)
                sent = (b'' if enc is None else '').join(e[1] for e in rec_s.ev if e[0] == 'w')
                read = (b'' if enc is None else '').join(e[1] for e in rec_r.ev if e[0] == 'w')
                want_sent = b'hi\rab' if enc is None else 'hi\rab'
                if (b'hi' if enc is None else 'hi') not in joined:
                    msg = 'interact() did not log the traffic: %r' % (writes[:6],)
                elif sent != want_sent:
                    msg = 'interact(): logfile_send got %r, the child was sent %r' % (sent, want_sent)
                elif (read if enc is None else read.encode(enc)) != shown:
                    msg = 'interact(): logfile_read got %r, the user saw %r' % (read, shown)
            if msg:
                common.report(ctx, 'interact/logging/%s' % ('bytes' if enc is None else 'unicode'), msg, dict(encoding=enc, use_poll=use_poll, writes=[repr(w_) for w_ in writes[:8]]))
    stats['interact_sessions'] = n


def stage_handover(ctx, stats):
    """C07 / C11: the stream is handed from expect() to interact() in the middle of a multi-byte character: the bytes expect() has read but
    not yet been able to decode belong to the character interact() completes, for the log files as for any later read"""
    import pty, tty, threading, select, sys
    text = '<\u00e9\u2500\U0001f600>'
    raw = text.encode('utf-8')
    cuts = [2, 4, 5, 7, 8, 9]
    if ctx.quick():
        cuts = [cuts[i] for i in sorted(ctx.rng.sample(range(len(cuts)), 3))]
    child = ("import os,sys,time; os.write(1, bytes.fromhex(sys.argv[1])); sys.stdin.readline(); "
             "os.write(1, bytes.fromhex(sys.argv[2]) + b'|done'); time.sleep(30)")
    n = 0
    # the model's account of the same hand-over (Sess.run2: expect()-side reads, then chunks copied by interact(), one decoder)
    try:
        c = consts()
        mo = common.run_model(['SS u8 %s %d %d R=%s L=- X=%s' % (S.enc_text(LINESEP), c['eof'], c['intr'], S.enc_text(raw[:cut]), S.enc_text(raw[cut:] + b'|done')) for cut in cuts])
        model_text = {}
        for cut, line in zip(cuts, mo):
            lr = line.split(' lr=')[1].split(' ls=')[0]
            model_text[cut] = ''.join(''.join(chr(int(x)) for x in e.split(':')[2].split(',')) for e in lr.split('|') if e.startswith('w:') and e.split(':')[2] != '-')
    except common.ModelUnavailable as e:
        ctx.broken.append('model driver unavailable: ' + str(e)[:300]); model_text = {}
    for cut in cuts:
        if cut in model_text and model_text[cut] != text + '|done':
            ctx.broken.append('hand-over model: cut %d gives %r' % (cut, model_text[cut]))
        for use_poll in (False, True):
            head = raw[:cut].decode('utf-8', 'ignore')
            m, sfd = pty.openpty()
            tty.setraw(m)
            p = pexpect.spawn(sys.executable, ['-c', child, raw[:cut].hex(), raw[cut:].hex()], echo=False, encoding='utf-8', timeout=5, use_poll=use_poll)
            rec = S.RecLog()
            p.logfile_read = rec
            msg = None
            try:
                p.expect_exact(head)
                for _ in range(40):          # let the cut byte(s) reach the spawn's decoder
                    try:
                        p.read_nonblocking(64, 0.02)
                    except pexpect.TIMEOUT:
                        pass
                    if len(''.join(e[1] for e in rec.ev if e[0] == 'w').encode()) + len(p._decoder.getstate()[0]) >= cut:
                        break
                before_n = len([e for e in rec.ev if e[0] == 'w'])
                p.STDIN_FILENO = sfd; p.STDOUT_FILENO = sfd

                def user():
                    time.sleep(0.1)
                    os.write(m, b'\r')
                    t0 = time.time()
                    while time.time() - t0 < 3 and '|done' not in ''.join(str(e[1]) for e in rec.ev if e[0] == 'w'):
                        time.sleep(0.02)
                    time.sleep(0.05)
                    os.write(m, b'\x1d')
                th = threading.Thread(target=user); th.start()
                try:
                    with common.guard(20):
                        p.interact()
                except common.Stuck:
                    msg = 'interact() was still running 20 s after the escape character had been typed'
                except Exception as e:       # noqa
                    msg = 'interact() after expect() stopped inside a character raised %s: %s' % (type(e).__name__, str(e)[:100])
                th.join()
                logged = ''.join(e[1] for e in rec.ev[:] if e[0] == 'w')
                if msg is None and cut in model_text and logged != model_text[cut]:
                    ctx.broken.append('correspondence hand-over model vs spawn.interact (cut %d): real log %r model %r' % (cut, logged, model_text[cut]))
                if msg is None and logged != text + '|done':
                    msg = 'logfile_read over expect() then interact() holds %r, the child wrote %r (cut at byte %d)' % (logged, text + '|done', cut)
            except pexpect.ExceptionPexpect as e:
                msg = 'hand-over session failed: %s' % type(e).__name__
            except Exception as e:      # noqa  (e.g. a decoding error out of expect(): a cut character reported as an error)
                msg = 'expect() before the hand-over raised %s: %s' % (type(e).__name__, str(e)[:100])
            finally:
                p.close(force=True)
                os.close(m); os.close(sfd)
            n += 1
            if msg:
                common.report(ctx, 'interact/handover/cut%d' % cut, msg, dict(cut=cut, use_poll=use_poll, text=text))
    stats['handover_sessions'] = n


def stage_aborted_call(ctx, stats):
    """C07: a read ends inside a character; an expect() that is waiting for more is aborted by an exception the program survives (raised by a
    signal handler); the rest of the character arrives afterwards: the text is still the decoding of the whole stream"""
    import signal
    from pexpect import fdpexpect

    class Abort(Exception):
        pass

    def on_alarm(sig, frm):
        raise Abort()
    old = signal.signal(signal.SIGALRM, on_alarm)
    n = 0
    try:
        for enc, errors, head, tail, want in (('utf-8', 'strict', b'caf\xc3', b'\xa9!', 'caf\u00e9!'), ('utf-8', 'replace', b'x\xe2\x82', b'\xac!', 'x\u20ac!'),
                                              ('utf-16', 'strict', b'\xff\xfeh\x00\xe9', b'\x00!\x00', 'h\u00e9!'), ('shift_jis', 'strict', b'a\x83', b'\x5c!', 'a\u30bd!')):
            for kind in ('fd',):
                r, w = os.pipe()
                p = fdpexpect.fdspawn(r, encoding=enc, codec_errors=errors, timeout=5)
                wr = lambda b: os.write(w, b)
                fin = lambda: (os.close(w), p.close())
                got = ''
                msg = None
                try:
                    wr(head)
                    for _ in range(50):
                        try:
                            got += p.read_nonblocking(100, 0.05)
                        except pexpect.TIMEOUT:
                            break
                    signal.setitimer(signal.ITIMER_REAL, 0.05)
                    try:
                        p.expect_exact('never', timeout=3)
                        msg = 'the aborted call returned'
                    except Abort:
                        pass
                    except pexpect.TIMEOUT:
                        msg = 'the signal handler did not abort the call'
                    finally:
                        signal.setitimer(signal.ITIMER_REAL, 0)
                    got += p.before if isinstance(p.before, str) else ''
                    p.buffer = ''
                    wr(tail)
                    p.expect_exact('!', timeout=3)
                    got += p.before + p.after
                except Exception as e:      # noqa
                    msg = msg or 'raised %s: %s' % (type(e).__name__, str(e)[:100])
                finally:
                    try:
                        fin()
                    except Exception:
                        pass
                n += 1
                if msg is None and got != want:
                    msg = 'delivered %r, the stream decodes to %r' % (got, want)
                if msg:
                    common.report(ctx, 'c07/aborted-call/%s' % enc, '%s (%s/%s): a character cut by a read, an expect() aborted by an exception from a signal handler, then the rest of the '
                                  'character: %s' % (kind, enc, errors, msg), dict(encoding=enc, errors=errors, head=head.hex(), tail=tail.hex()))
                    break
    finally:
        signal.signal(signal.SIGALRM, old)
    stats['aborted_call_sessions'] = n


def stage_two_objects(ctx, stats):
    """C07 / C08 with two live objects of the same encoding and error policy whose reads and sends interleave: a character cut by a read
    of one object is completed by that object's next read whatever the other one reads in between, and what one object sent (a byte
    order mark, a shift state) is not what the other one has sent"""
    from pexpect import fdpexpect
    n = 0
    for enc, errors in (('utf-8', 'strict'), ('utf-8', 'replace'), ('utf-8', 'ignore'), ('utf-16', 'strict'), ('shift_jis', 'strict')):
        ta, tb, ch = 'caf\u30bd \u8868!', 'x\u80fdy', '\u30bd'
        if enc != 'shift_jis':
            ta, tb, ch = 'caf\u00e9 \u20ac!', 'x\U0001f600y', '\u00e9'
        ra, rb = ta.encode(enc), tb.encode(enc)
        for cut_a in range(1, len(ra)):
            for cut_b in (1, len(rb) - 2):
                pa, pb = os.pipe(), os.pipe()
                wa, wb = os.pipe(), os.pipe()          # where each object's sends go
                A = fdpexpect.fdspawn(pa[0], encoding=enc, codec_errors=errors, timeout=2)
                B = fdpexpect.fdspawn(pb[0], encoding=enc, codec_errors=errors, timeout=2)
                msg = None
                try:
                    got_a = got_b = ''
                    os.write(pa[1], ra[:cut_a]); got_a += A.read_nonblocking(100, 1)
                    os.write(pb[1], rb[:cut_b]); got_b += B.read_nonblocking(100, 1)
                    os.write(pa[1], ra[cut_a:]); got_a += A.read_nonblocking(100, 1)
                    os.write(pb[1], rb[cut_b:]); got_b += B.read_nonblocking(100, 1)
                    if (got_a, got_b) != (ta, tb):
                        msg = 'A delivered %r (its stream: %r), B delivered %r (its stream: %r)' % (got_a, ta, got_b, tb)
                    else:
                        A.child_fd, B.child_fd = wa[1], wb[1]
                        A.send('a' + ch); B.send('b'); A.send('c'); B.send(ch)
                        sa, sb = os.read(wa[0], 100), os.read(wb[0], 100)
                        if (sa, sb) != (('a' + ch + 'c').encode(enc), ('b' + ch).encode(enc)):
                            msg = "A's peer received %r (sent: %r), B's peer received %r (sent: %r)" % (sa, ('a' + ch + 'c').encode(enc), sb, ('b' + ch).encode(enc))
                        A.child_fd, B.child_fd = pa[0], pb[0]
                except Exception as e:      # noqa
                    msg = 'raised %s: %s' % (type(e).__name__, str(e)[:80])
                finally:
                    for fd in pa + pb + wa + wb:
                        try:
                            os.close(fd)
                        except OSError:
                            pass
                    A.closed = B.closed = True
                    A.child_fd = B.child_fd = -1
                n += 1
                if msg:
                    common.report(ctx, 'c07/two-objects/%s' % enc, 'two fdspawn objects (%s/%s) used in turn, the first read of A ends after byte %d, of B after byte %d: %s' % (
                        enc, errors, cut_a, cut_b, msg), dict(encoding=enc, errors=errors, cut_a=cut_a, cut_b=cut_b, how='harness/props/session_family.py stage_two_objects'))
                    stats['two_object_cases'] = n
                    return
    stats['two_object_cases'] = n


def stage_growing_file(ctx, stats):
    """C07 on a descriptor that reports the end of the stream at its momentary end and delivers more later (a file that is still being
    written): a character cut at such a point is completed by what follows, like at any other read boundary"""
    from pexpect import fdpexpect
    n = 0
    for enc, errors, text in (('utf-8', 'strict', 'price: \u20ac5 \U0001f600!'), ('utf-8', 'replace', 'caf\u00e9 \u2500'), ('utf-16', 'strict', 'h\u00e9\u20ac')):
        raw = text.encode(enc)
        for cut in [c for c in range(1, len(raw)) if c % 3 == 1][:6]:
            path = os.path.join(ctx.tmp, 'growing_%s_%d' % (enc, cut))
            f = open(path, 'wb', buffering=0)
            f.write(raw[:cut])
            fd = os.open(path, os.O_RDONLY)
            p = fdpexpect.fdspawn(fd, encoding=enc, codec_errors=errors, timeout=2)
            got, msg = '', None
            try:
                p.expect(pexpect.EOF); got += p.before
                f.write(raw[cut:])
                p.expect(pexpect.EOF); got += p.before
            except Exception as e:     # noqa
                msg = 'raised %s: %s' % (type(e).__name__, str(e)[:80])
            finally:
                f.close()
                try:
                    p.close()
                except Exception:
                    pass
            n += 1
            if msg is None and got != text:
                msg = 'delivered %r, the file holds %r' % (got, text)
            if msg:
                common.report(ctx, 'c07/growing-file/%s' % enc, 'fdspawn on a file that grows (%s/%s), first part ends after byte %d: %s' % (enc, errors, cut, msg),
                              dict(encoding=enc, errors=errors, cut=cut))
                stats['growing_file_cases'] = n
                return
    stats['growing_file_cases'] = n


def stage_big_sends(ctx, stats):
    """C08: payloads larger than the kernel buffers with a peer that starts reading late, on blocking and timeout-mode descriptors:
    send() must return the number of bytes of its argument and the peer must receive exactly the arguments, concatenated"""
    import socket, threading
    size = (1 << 20) if ctx.quick() else (8 << 20)
    for tr in ('socket', 'fd'):
        for mode in ('blocking', 'timeout'):
            a, b = socket.socketpair()
            if mode == 'timeout':
                a.settimeout(5.0)
            try:
                if tr == 'socket':
                    p = socket_pexpect.SocketSpawn(a, timeout=5)
                else:
                    if mode == 'timeout':
                        continue                      # fdspawn documents a blocking descriptor
                    p = fdpexpect.fdspawn(a.fileno(), timeout=5)
                got = bytearray()
                started = threading.Event()

                def reader():
                    started.wait(2.0)
                    time.sleep(0.05)                  # let the send buffer fill up first
                    b.settimeout(3.0)
                    try:
                        while True:
                            d = b.recv(1 << 20)
                            if not d:
                                break
                            got.extend(d)
                    except Exception:
                        pass
                th = threading.Thread(target=reader, daemon=True)
                th.start()
                payload = (bytes(range(256)) * (size // 256))
                started.set()
                rets = []
                err = None
                try:
                    # a read that ends in TIMEOUT first: whatever it did to the descriptor must be undone before the sends
                    if p.expect_exact([b'never', pexpect.TIMEOUT], timeout=0) != 1:
                        err = 'expect_exact(timeout=0) on a silent peer did not give the TIMEOUT index'
                    rets.append(p.send(b'head:'))
                    rets.append(p.send(payload))
                    rets.append(p.sendline(b'tail'))
                except Exception as e:    # noqa
                    err = '%s: %s' % (type(e).__name__, e)
                a.shutdown(socket.SHUT_WR)
                th.join(6.0)
                want = b'head:' + payload + b'tail' + os.linesep.encode()
                stats['big_sends'] = stats.get('big_sends', 0) + 1
                if err:
                    common.report(ctx, 'c08/%s/big/%s/exception' % (tr, mode), '%s (%s descriptor): sending %d bytes raised %s' % (tr, mode, len(payload), err),
                                  dict(stage='stage_big_sends', transport=tr, mode=mode, size=len(payload)))
                elif rets != [5, len(payload), 5] or bytes(got) != want:
                    k = next((i for i, (x, y) in enumerate(zip(got, want)) if x != y), min(len(got), len(want)))
                    common.report(ctx, 'c08/%s/big/%s/short-write' % (tr, mode),
                                  '%s (%s descriptor): send returned %r for arguments of %r bytes; the peer received %d of %d bytes (first difference at %d)' % (
                                      tr, mode, rets, [5, len(payload), 5], len(got), len(want), k),
                                  dict(stage='stage_big_sends', transport=tr, mode=mode, size=len(payload)))
            finally:
                for s_ in (a, b):
                    try:
                        s_.close()
                    except Exception:
                        pass


def stage_popen_short_writes(ctx, stats):
    """C08 on the pipe transport when the pipe takes less than offered (a non-blocking stdin): send() returns the number of bytes it wrote,
    so a caller that goes on with the rest delivers exactly its payload"""
    import hashlib
    from pexpect import popen_spawn
    payload = bytes(range(256)) * ((1 << 20) // 256 if ctx.quick() else (4 << 20) // 256)
    code = "import sys,hashlib; d=sys.stdin.buffer.read(); sys.stdout.write('%d %s' % (len(d), hashlib.md5(d).hexdigest())); sys.stdout.flush()"
    p = popen_spawn.PopenSpawn([common.PY, '-c', code], timeout=20)
    os.set_blocking(p.proc.stdin.fileno(), False)
    data, rets, err = payload, [], None
    t0 = time.time()
    try:
        while data and time.time() - t0 < 30:
            try:
                n = p.send(data)
            except BlockingIOError:
                n = 0
            n = n or 0
            rets.append(n)
            if n == 0:
                time.sleep(0.002)
            data = data[n:]
        os.set_blocking(p.proc.stdin.fileno(), True)
        p.proc.stdin.close()
        p.expect(pexpect.EOF, timeout=20)
        got = p.before.decode().split()
    except Exception as e:     # noqa
        err = '%s: %s' % (type(e).__name__, str(e)[:100]); got = []
    finally:
        try:
            p.proc.kill(); p.proc.wait(); p.proc.stdout.close()
        except Exception:
            pass
    stats['popen_short_write_calls'] = len(rets)
    want = [str(len(payload)), hashlib.md5(payload).hexdigest()]
    if err or got != want:
        common.report(ctx, 'c08/popen/short-writes', 'popen transport with a non-blocking stdin: %d send() calls returned %s... (sum %d of %d bytes offered in turn); the peer received %s, '
                      'the payload is %s%s' % (len(rets), rets[:4], sum(rets), len(payload), got, want, ('; ' + err) if err else ''),
                      dict(stage='stage_popen_short_writes', size=len(payload)))


def stage_descendant_reader(ctx, stats):
    """C08 when the process that was started has exited and a descendant of it still reads the terminal (a shell that backgrounds a job and
    exits, a daemonising program): what is sent still goes to the terminal, all of it, in order"""
    out = os.path.join(ctx.tmp, 'descendant_got')
    code = ("import os,sys,signal,tty,time\n"
            "signal.signal(signal.SIGHUP, signal.SIG_IGN)\n"
            "tty.setraw(0)\n"
            "if os.fork():\n"
            "    os._exit(0)\n"
            "f = open(sys.argv[1], 'wb', buffering=0)\n"
            "f.write(b'R')\n"
            "t0 = time.time()\n"
            "while time.time() - t0 < 20:\n"
            "    d = os.read(0, 4096)\n"
            "    if not d: break\n"
            "    f.write(d)\n")
    p = pexpect.spawn(common.PY, ['-c', code, out], echo=False, timeout=5)
    p.delaybeforesend = None
    problems = []
    try:
        t0 = time.time()
        while time.time() - t0 < 5 and not (os.path.exists(out) and open(out, 'rb').read(1) == b'R'):
            time.sleep(0.01)
        while time.time() - t0 < 5 and p.isalive():          # the started process is gone (and reaped); its child holds the terminal
            time.sleep(0.01)
        rets = [p.send(b'abc'), p.sendline(b'd\xc3\xa9f'), p.send(b'\x00\xffxy')]
        p.sendcontrol('g')
        want = b'Rabc' + b'd\xc3\xa9f' + os.linesep.encode() + b'\x00\xffxy\x07'
        t0 = time.time()
        got = b''
        while time.time() - t0 < 3:
            got = open(out, 'rb').read()
            if len(got) >= len(want):
                break
            time.sleep(0.01)
        if got != want or rets != [3, 4 + len(os.linesep), 4]:
            problems.append('the descendant that reads the terminal received %r (sent: %r), the send calls returned %r' % (got[1:], want[1:], rets))
    except Exception as e:      # noqa
        problems.append('raised %s: %s' % (type(e).__name__, str(e)[:100]))
    finally:
        try:
            p.close(force=True)
        except Exception:
            pass
    stats['descendant_reader'] = 1
    if problems:
        common.report(ctx, 'c08/pty/descendant-reader', 'pty, the started process has exited and its child still reads the terminal: ' + problems[0], dict(stage='stage_descendant_reader'))


def stage_send_faults(ctx, stats):
    """C11 when the descriptor does not take a request as offered: a non-blocking terminal whose input queue is full for a moment (the write
    fails with EAGAIN - expect(async_=True) leaves the descriptor non-blocking) or takes only the first bytes.  Whatever send() then does -
    report the error, return the short count - the caller asked for each piece once, and the send logs hold it once, in order."""
    import errno
    rng = ctx.rng
    real_write = os.write
    state = dict(fd=None, plan=[], hits=0, applied=None)

    def faulty(fd, data):
        if fd == state['fd'] and state['plan']:
            k = state['plan'].pop(0)
            if k == 'eagain':
                state['hits'] += 1
                state['applied'] = 'r'
                raise BlockingIOError(errno.EAGAIN, 'Resource temporarily unavailable')
            if k == 'short' and len(data) > 1:
                state['hits'] += 1
                state['applied'] = 's=%d' % max(1, len(data) // 2)
                return real_write(fd, data[:max(1, len(data) // 2)])
        return real_write(fd, data)

    n = 0
    mlines, mreal, mdesc = [], [], []
    for tr in ('pty', 'fd'):
        for enc in (None, 'utf-8'):
            for plan_kind in ('eagain', 'short', 'mixed'):
                ses = S.Session(tr, encoding=enc, logs=('logfile', 'logfile_send'))
                asked, outcomes, toks, peer = [], [], [], b''
                try:
                    state['fd'] = ses.p.child_fd
                    os.write = faulty
                    for j in range(5):
                        text = rng.choice(TEXTS) + '%d\n' % j
                        v = text if enc else text.encode('utf-8')
                        form = rng.choice(['send', 'sendline', 'write'])
                        state['plan'] = {'eagain': ['eagain'], 'short': ['short'], 'mixed': [rng.choice(['eagain', 'short', 'ok'])]}[plan_kind] if j in (1, 3) else []
                        want = v + ((os.linesep if enc else os.linesep.encode()) if form == 'sendline' else (v[:0]))
                        asked.append(want)
                        state['applied'] = None
                        try:
                            getattr(ses.p, form)(v)
                            outcomes.append('ret')
                        except OSError as e:
                            outcomes.append(type(e).__name__)
                        state['plan'] = []
                        ap = state['applied']
                        toks.append(('L' if form == 'sendline' else 'S') + ('=' if ap is None else ap + '=') + S.enc_text(v))
                    os.write = real_write
                    peer = ses.peer_received(sum(len(a if isinstance(a, bytes) else a.encode('utf-8')) for a in asked))
                finally:
                    os.write = real_write
                    logs = {k: [e[1] for e in r.ev if e[0] == 'w'] for k, r in ses.logs.items()}
                    evs = {k: '|'.join(('w:s:' + S.enc_text(e[1])) if e[0] == 'w' else 'f' for e in r.ev) for k, r in ses.logs.items()}
                    ses.close()
                n += 1
                c_ = consts()
                mlines.append('SG %s %s %d %d %s' % ('u8' if enc else 'l1', S.enc_text(LINESEP), c_['eof'], c_['intr'], ' '.join(toks)))
                mreal.append('peer=%s log=%s ls=%s' % (S.enc_text(peer), evs['logfile'], evs['logfile_send']))
                mdesc.append('%s/%s/%s' % (tr, 'unicode' if enc else 'bytes', plan_kind))
                for name in ('logfile', 'logfile_send'):
                    if logs[name] != asked:
                        common.report(ctx, 'c11/%s/send-fault-%s' % (tr, plan_kind),
                                      '%s (%s mode), %s asked for once each with a descriptor that %s on requests 1 and 3 (outcomes %s): %s received %r' % (
                                          tr, 'unicode' if enc else 'bytes', [repr(a)[:24] for a in asked],
                                          {'eagain': 'fails with EAGAIN', 'short': 'takes half', 'mixed': 'fails with EAGAIN or takes half'}[plan_kind], outcomes, name,
                                          [repr(x)[:24] for x in logs[name]]),
                                      dict(stage='stage_send_faults', transport=tr, encoding=enc, plan=plan_kind))
                        break
    # the same requests with the same fates through the Lean model (Sess.runF): what reached the peer and what the logs hold
    try:
        mouts = common.run_model(mlines)
        for ml, mo, mr, md in zip(mlines, mouts, mreal, mdesc):
            pm = ' '.join(t for t in mo.split(' ') if t.startswith(('peer=', 'log=', 'ls=')))
            if pm != mr and not ctx.violations:
                ctx.broken.append('correspondence send-fault model vs %s: real %s model %s line %s' % (md, mr[:300], pm[:300], ml[:200]))
                break
        stats['send_fault_sessions_through_model'] = len(mouts)
    except common.ModelUnavailable as e:
        ctx.broken.append('model driver unavailable: ' + str(e)[:300])
    stats['send_fault_sessions'] = n
    stats['send_faults_injected'] = state['hits']


def stage_log_edges(ctx, stats):
    """C11 at the edges of the transports:
    (a) small reads of output that a child left behind when it exited (popen, pty, fd): everything delivered is in logfile_read;
    (b) a send that fails half-way (timeout-mode socket, peer not reading): whatever reached the peer is in logfile_send."""
    import socket, threading
    from pexpect import popen_spawn
    text = ''.join('%03d.' % i for i in range(78))[:310].encode()
    for tr in ('popen', 'pty', 'fd'):
        for enc in (None, 'utf-8'):
            for size in (64, 100, 1000):
                rec = S.RecLog()
                if tr == 'popen':
                    p = popen_spawn.PopenSpawn([common.PY, '-c', 'import sys; sys.stdout.write(%r); sys.stdout.flush()' % text.decode()], encoding=enc, timeout=3)
                    time.sleep(0.25)              # the child has exited and the reader thread has queued its output and the EOF marker
                elif tr == 'pty':
                    p = pexpect.spawn(common.PY, ['-c', 'import sys,tty; tty.setraw(1); sys.stdout.write(%r); sys.stdout.flush()' % text.decode()], encoding=enc, timeout=3)
                    time.sleep(0.25)
                else:
                    r, w = os.pipe(); os.write(w, text); os.close(w)
                    p = fdpexpect.fdspawn(r, encoding=enc, timeout=3)
                p.logfile_read = rec
                got = []
                try:
                    for _ in range(40):
                        try:
                            got.append(p.read_nonblocking(size, 1))
                        except pexpect.EOF:
                            break
                        except pexpect.TIMEOUT:
                            continue
                finally:
                    try:
                        if tr == 'popen':
                            p.proc.stdout.close(); p.proc.wait()
                        elif tr == 'pty':
                            p.close(force=True)
                        else:
                            p.close()
                    except Exception:
                        pass
                empty = '' if enc else b''
                delivered = empty.join(got)
                logged = empty.join(e[1] for e in rec.ev if e[0] == 'w')
                want = text.decode() if enc else text
                stats['log_edges'] = stats.get('log_edges', 0) + 1
                if delivered != want or logged != delivered:
                    common.report(ctx, 'c11/%s/small-reads' % tr, '%s (%s mode), reads of %d: delivered %d characters, logfile_read has %d of them (child wrote %d)' % (
                        tr, 'unicode' if enc else 'bytes', size, len(delivered), len(logged), len(want)), dict(stage='stage_log_edges', transport=tr, encoding=enc, size=size))
    # (c) a stream that ends inside a character, read to its end by expect(EOF): whatever text the caller is handed (before) is what the log holds
    for tr in ('fd', 'socket', 'popen'):
        for errors in ('strict', 'replace', 'ignore', 'backslashreplace'):
            raw = 'ready> caf'.encode() + b'\xc3'
            rec = S.RecLog()
            a_ = b_ = None
            if tr == 'fd':
                r, w = os.pipe(); os.write(w, raw); os.close(w)
                p = fdpexpect.fdspawn(r, encoding='utf-8', codec_errors=errors, timeout=3)
            elif tr == 'socket':
                a_, b_ = socket.socketpair(); b_.sendall(raw); b_.close()
                p = socket_pexpect.SocketSpawn(a_, encoding='utf-8', codec_errors=errors, timeout=3)
            else:
                p = popen_spawn.PopenSpawn([common.PY, '-c', 'import sys; sys.stdout.buffer.write(%r); sys.stdout.flush()' % raw], encoding='utf-8', codec_errors=errors, timeout=3)
            p.logfile_read = rec
            try:
                p.expect(pexpect.EOF)
                handed = p.before
            except Exception as e:      # noqa
                handed = 'EXC:' + type(e).__name__
            finally:
                try:
                    if tr == 'popen':
                        p.proc.stdout.close(); p.proc.wait()
                    else:
                        p.close()
                    if a_ is not None:
                        a_.close()
                except Exception:
                    pass
            logged = ''.join(e[1] for e in rec.ev if e[0] == 'w')
            stats['log_edges'] = stats.get('log_edges', 0) + 1
            if handed != logged:
                common.report(ctx, 'c11/%s/cut-at-eof' % tr, '%s (utf-8, %s): the stream %r ended inside a character; expect(EOF) handed the caller %r, logfile_read holds %r' % (
                    tr, errors, raw, handed, logged), dict(stage='stage_log_edges', transport=tr, errors=errors))
    for enc in (None, 'utf-8'):
        a, b = socket.socketpair()
        a.settimeout(0.2)
        rec = S.RecLog()
        p = socket_pexpect.SocketSpawn(a, encoding=enc, timeout=1)
        p.logfile_send = rec
        payload = ('0123456789abcdef' * 65536)
        err = None
        try:
            p.send('first;' if enc else b'first;')
            p.send(payload if enc else payload.encode())
        except Exception as e:      # noqa
            err = type(e).__name__
        b.setblocking(False)
        got = b''
        try:
            while True:
                d = b.recv(1 << 20)
                if not d:
                    break
                got += d
        except BlockingIOError:
            pass
        a.close(); b.close()
        logged = ('' if enc else b'').join(e[1] for e in rec.ev if e[0] == 'w')
        logged_b = logged.encode() if enc else logged
        if not logged_b.startswith(got) or not got.startswith(b'first;'):
            common.report(ctx, 'c11/socket/failed-send', 'socket (%s mode): a send failed with %s after %d bytes had reached the peer; logfile_send holds %d bytes and does not cover them' % (
                'unicode' if enc else 'bytes', err, len(got), len(logged_b)), dict(stage='stage_log_edges', encoding=enc))


def run(ctx):
    prop = ctx.prop
    common.prove(ctx, [prop])
    if not ctx.quick():
        common.leanchecker(ctx, [prop])
    stats = {}
    if prop == 'C07':
        cases = gen_c07(ctx)
    elif prop == 'C08':
        cases = gen_sends(ctx, [()])
    else:
        cases = gen_sends(ctx, [('logfile',), ('logfile_read',), ('logfile_send',), ('logfile', 'logfile_read', 'logfile_send'), ('logfile', 'logfile_send')])
    lines, idx = [], []
    for i, c in enumerate(cases):
        if modelable(c):
            lines.append(model_line(c)); idx.append(i)
    try:
        mouts = dict(zip(idx, common.run_model(lines)))
    except common.ModelUnavailable as e:
        ctx.broken.append('model driver unavailable: ' + str(e)[:300]); mouts = {}
    sigs = set()
    if prop == 'C08':
        stage_big_sends(ctx, stats)
        stage_two_objects(ctx, stats)
        stage_popen_short_writes(ctx, stats)
        stage_descendant_reader(ctx, stats)
    if prop == 'C11':
        stage_log_edges(ctx, stats)
        stage_send_faults(ctx, stats)
    oracle = ORACLES[prop]
    for i, c in enumerate(cases):
        res = run_case(c)
        sigs.add((c['transport'], c['encoding'], c.get('errors'), tuple(sorted(set(op[0] for op in c['ops']))), tuple(c.get('logs', ()))))
        msg = oracle(c, res)
        if msg:
            kinds = ''.join(sorted(set(op[0] for op in c['ops'])))
            common.report(ctx, '%s/%s/%s/%s' % (prop.lower(), c['transport'], 'bytes' if c['encoding'] is None else 'unicode', msg.split(' ')[0]),
                          '%s, %s: %s' % (c['transport'], c['encoding'], msg),
                          dict(transport=c['transport'], encoding=c['encoding'], errors=c.get('errors'), logs=list(c.get('logs', ())),
                               ops=[[op[0]] + [repr(x) for x in op[1:]] for op in c['ops']], case_json=_enc(c),
                               how='harness/props/session_family.py run_case(case); ./check %s --replay <this file> runs it again' % prop))
            continue
        if i in mouts and not res['problems']:
            real = real_canon(c, res)
            model = strip_ret(mouts[i])
            keep = {'C07': ('del=',), 'C08': ('peer=',), 'C11': ('log=', 'lr=', 'ls=')}[prop]
            pr = [t for t in real.split(' ') if t.startswith(keep)]
            pm = [t for t in model.split(' ') if t.startswith(keep)]
            # a log file that is not attached receives nothing
            if prop == 'C11':
                have = set(c.get('logs', ()))
                pm = [t if {'log=': 'logfile', 'lr=': 'logfile_read', 'ls=': 'logfile_send'}[t.split('=')[0] + '='] in have else t.split('=')[0] + '=' for t in pm]
            if pr != pm:
                ctx.broken.append('correspondence session model vs %s (%s): real %s model %s ops %s' % (c['transport'], c['encoding'], pr, pm, model_ops(c)))
    if prop == 'C07':
        stage_async(ctx, stats)
        stage_handover(ctx, stats)
        stage_aborted_call(ctx, stats)
        stage_growing_file(ctx, stats)
        stage_two_objects(ctx, stats)
    if prop == 'C11':
        stage_interact_logging(ctx, stats)
        stage_handover(ctx, stats)
    ctx.cov.update(stats)
    ctx.cov['model_compared_cases'] = len(mouts)
    return common.finish(
        ctx, {'C07': 'every single cut point of two UTF-8 texts on each of the four transports; sampled (encoding x error policy x transport x <= 3 cuts) with '
                     'well-formed and (replace/ignore) ill-formed streams; bytes mode with all 256 byte values; asyncio path at every cut point',
              'C08': 'random send-family histories (send / sendline / writelines / sendcontrol / sendeof / sendintr, text and bytes arguments, reads in between) on the '
                     'four transports in bytes / utf-8 / latin-1 / utf-16 mode; all 256 byte values and a payload larger than the kernel buffer per transport',
              'C11': 'the C08 histories with every combination of attached log files, recording write / flush calls and argument types; interact() sessions'}[prop] +
        '; reference = CPython incremental codec fed the whole stream; distinct = (transport, encoding, errors, op kinds, attached logs)',
        [dict(transport=c['transport'], encoding=c['encoding'], ops=[[op[0]] + [repr(x) for x in op[1:]] for op in c['ops']]) for c in cases[:2]],
        len(cases), len(sigs),
        assumptions=['CPython incremental decoders / encoders satisfy the chunk law (validated here against whole-stream decoding)',
                     'a blocking write on a pty / pipe / socket accepts the whole buffer when the peer is reading'])


def _enc(v):
    if isinstance(v, bytes):
        return {'__b': v.hex()}
    if isinstance(v, (list, tuple)):
        return [_enc(x) for x in v]
    if isinstance(v, dict):
        return {k: _enc(x) for k, x in v.items()}
    return v


def _dec(v):
    if isinstance(v, dict) and set(v) == {'__b'}:
        return bytes.fromhex(v['__b'])
    if isinstance(v, list):
        return [_dec(x) for x in v]
    if isinstance(v, dict):
        return {k: _dec(x) for k, x in v.items()}
    return v


def replay(ctx, path):
    d = json.load(open(path))
    r = d.get('replay') or {}
    if 'case_json' in r:
        c = _dec(r['case_json'])
        c['ops'] = [tuple(op) for op in c['ops']]
        if 'logs' in c:
            c['logs'] = tuple(c['logs'])
        res = run_case(c)
        msg = ORACLES[ctx.prop](c, res)
        print('%s, %s: %s' % (c['transport'], c['encoding'], msg or 'holds on this input'))
        return 1 if msg else 0
    print(open(path).read()[:3000])
    return None      # no dedicated replay for this kind of case: check.py re-runs the check with the recorded seed
