"""C12: run() — proofs about the run-loop model (Props/C12.lean) + correspondence on a scripted spawn + real children."""
import os, sys, json, copy, time, types, functools, collections, re, tempfile, subprocess, multiprocessing, signal
from lib import common
from drivers import expecter as X
from props.expecter_family import rand_ast, sample

common.repo_on_path()
import pexpect
import importlib
prun = importlib.import_module("pexpect.run")
from pexpect import EOF, TIMEOUT

FUEL = 8          # dispatches after which the harness cuts a (possibly endless) real run short


class Fuel(Exception):
    pass


# ------------------------------------------------------------------------------------------ case language
# case = {'mode': 'b'|'u', 'events': [[pat, resp]...] | None, 'form': 'list'|'dict', 'W': None|int, 'cb': {'id:count': res},
#         'script': [ev...], 'timeout': -1|int, 'exit': int|None, 'wx': bool}
# pat  = ['E'] | ['T'] | ['re', flags, ast]   (flags == 's' -> passed as a string source, else pre-compiled)
# resp = ['s', text] | ['f', id] | ['m', id] | ['bad', kind]          f = plain function, m = bound method
# res  = ['s', text] | ['stop', v] | ['cont', v]


def conv(t, mode):
    return t if mode == 'u' else t.encode('latin-1')


def totext(v):
    if v is None:
        return None
    return v.decode('latin-1') if isinstance(v, bytes) else v


class RunSpawn(X.Scripted):
    """what run() gets instead of pexpect.spawn: scripted transport, recorded sends"""
    cfg = None

    def __init__(self, command, timeout=30, maxread=2000, logfile=None, cwd=None, env=None, **kw):
        cfg = RunSpawn.cfg
        # the mode is the one run() asks for (encoding keyword), not the one the case intends: a run() that loses the
        # keyword on the way builds a bytes-mode spawn and is judged on what it then returns
        mode = 'u' if kw.get('encoding') else 'b'
        X.Scripted.__init__(self, [list(e) for e in cfg['script']], mode, cfg['clock'])
        self.timeout = timeout
        self.maxread = maxread
        self.searchwindowsize = kw.get('searchwindowsize')
        self.ctor = dict(command=command, timeout=timeout, maxread=maxread, kw=sorted(kw))
        self.actions = []
        self.finals = []
        self.eager_eof = bool(cfg.get('eager'))
        cfg['child'] = self

    def send(self, s):
        self.actions.append(['send', totext(s)])
        return len(s)

    def expect(self, pattern, timeout=-1, searchwindowsize=-1, async_=False, **kw):
        if len(self.finals) >= FUEL + 1:       # the model runs with FUEL + 1 iterations of fuel
            raise Fuel()
        try:
            i = X.Scripted.expect(self, pattern, timeout, searchwindowsize, async_, **kw)
        except EOF:
            self.finals.append(['EOF', totext(self.before)])
            raise
        except TIMEOUT:
            self.finals.append(['TIMEOUT', totext(self.before)])
            raise
        a = self.after
        self.finals.append(['idx', i, totext(self.before), 'EOF' if a is EOF else 'TIMEOUT' if a is TIMEOUT else totext(a)])
        return i

    def close(self, force=True):
        self.closed = True
        self.exitstatus = RunSpawn.cfg.get('exit')

    # (the rest of what run() may ask of a pexpect.spawn)
    def eof(self):
        return self.flag_eof

    def isalive(self):
        return not self.flag_eof and not self.closed


class Holder(object):
    def __init__(self, fn):
        self.fn = fn

    def method(self, d):
        return self.fn(d)


def build_events(case, log):
    mode = case['mode']
    if case['events'] is None:
        return None

    def mk_cb(cid):
        def cb(d):
            child = d['child']
            count = d['event_count']
            log.append(['cb', cid, count, d['index']])
            res = case['cb'].get('%d:%d' % (cid, count), ['cont', None])
            child.actions.append(['cbret', cid, count, res[0]])
            if res[0] == 's':
                return conv(res[1], mode)
            return res[1]
        return cb
    evs = []
    for pat, resp in case['events']:
        if pat[0] == 'E':
            p = EOF
        elif pat[0] == 'T':
            p = TIMEOUT
        else:
            src = X.render(pat[2], mode)
            src = src if mode == 'u' else src.encode('ascii')
            p = src if pat[1] == 's' else re.compile(src, X.flag_bits(pat[1]))
        if resp[0] == 's':
            r = conv(resp[1], mode)
        elif resp[0] == 'f':
            r = mk_cb(resp[1])
        elif resp[0] == 'm':
            r = Holder(mk_cb(resp[1])).method
        else:
            r = {'none': None, 'int': 7, 'partial': functools.partial(mk_cb(99)), 'list': ['x']}[resp[1]]
        evs.append((p, r))
    if case.get('form') == 'dict':
        return dict(evs)
    return evs


def run_real(case):
    clock = X.FakeTime()
    saved_time, saved_spawn = X.pexpect_expect.time, prun.spawn
    X.pexpect_expect.time = clock
    prun.spawn = RunSpawn
    cfg = dict(script=case['script'], mode=case['mode'], clock=clock, exit=case.get('exit'), eager=case.get('eager'))
    RunSpawn.cfg = cfg
    log = []
    out = dict()
    try:
        events = build_events(case, log)
        kw = {}
        if case.get('W'):
            kw['searchwindowsize'] = case['W']
        if case['mode'] == 'u':
            kw['encoding'] = 'utf-8'
        try:
            ret = prun.run('scripted child', timeout=case.get('timeout', 30), withexitstatus=bool(case.get('wx')), events=events, **kw)
            if case.get('wx'):
                out['status'] = ret[1]
                ret = ret[0]
            out['ret'] = totext(ret)
            out['ret_type'] = type(ret).__name__
            out['end'] = 'return'
        except Fuel:
            out['end'] = 'fuel'
        except TypeError as e:
            out['end'] = 'typeerror'
        except Exception as e:      # noqa
            out['end'] = 'EXC:%s' % type(e).__name__
            out['exc'] = repr(e)[:200]
        child = cfg.get('child')
        out['actions'] = child.actions if child else []
        out['finals'] = child.finals if child else []
        out['delivered'] = [totext(d) for d in child.delivered] if child else []
        out['pending'] = totext(child.buffer) if child else None
        out['ctor'] = child.ctor if child else None
        return out
    finally:
        X.pexpect_expect.time = saved_time
        prun.spawn = saved_spawn
        RunSpawn.cfg = None


# ------------------------------------------------------------------------------------------------- model

def model_line(case, script=None):
    toks = ['RN', str(case.get('W') or 0), str(FUEL + 1)]
    for pat, resp in (case['events'] or []):
        p = 'E' if pat[0] == 'E' else 'T' if pat[0] == 'T' else 're=%s=%s' % (pat[1] or 'n', X.lean_re(pat[2]))
        if resp[0] == 's':
            r = 's:' + X.enc_text(resp[1])
        elif resp[0] in ('f', 'm'):
            r = 'f:%d' % resp[1]
        else:
            r = 'bad'
        toks.append(p + '>' + r)
    toks.append('@')
    for key, res in sorted(case.get('cb', {}).items()):
        toks.append('%s:%s' % (key, 's=' + X.enc_text(res[1]) if res[0] == 's' else res[0]))
    toks.append('@')
    for ev in (script if script is not None else case['script']):
        if ev[0] == 'E':
            toks += ['E'] * (FUEL + 3)
            break
        toks.append('d=' + X.enc_text(ev[1]) if ev[0] == 'd' else ev[0])
    return ' '.join(toks)


def canon_real(case, out):
    """the same line the model prints, computed from what the real run did"""
    fin = out['finals']
    # stop kind
    if out['end'] == 'fuel':
        stop = 'fuel'
    elif out['end'] == 'typeerror':
        stop = 'typeerror'
    elif out['end'] != 'return':
        return out['end']
    elif fin and fin[-1][0] == 'EOF':
        stop = 'eof'
    elif fin and fin[-1][0] == 'TIMEOUT':
        stop = 'timeout'
    else:
        stop = 'cbstop'
    # dispatch log from the recorded actions
    log, sent = [], []
    acts = out['actions']
    k = 0
    idxfin = [f for f in fin if f[0] == 'idx']
    n = 0
    while k < len(acts):
        a = acts[k]
        f = idxfin[n] if n < len(idxfin) else ['idx', -1, '', '?']
        f = list(f)
        af = f[3] if f[3] in ('EOF', 'TIMEOUT') else X.enc_text(f[3])
        if a[0] == 'send':
            log.append('%d:%s:S%s' % (f[1], af, X.enc_text(a[1]))); sent.append(a[1]); k += 1
        elif a[0] == 'cbret':
            if a[3] == 's' and k + 1 < len(acts) and acts[k + 1][0] == 'send':
                log.append('%d:%s:C%d/%d/S%s' % (f[1], af, a[1], a[2], X.enc_text(acts[k + 1][1]))); sent.append(acts[k + 1][1]); k += 2
            else:
                log.append('%d:%s:C%d/%d/%s' % (f[1], af, a[1], a[2], a[3])); k += 1
        n += 1
    if stop == 'typeerror' and idxfin:
        f = idxfin[-1]
        log.append('%d:%s:TypeError' % (f[1], f[3] if f[3] in ('EOF', 'TIMEOUT') else X.enc_text(f[3])))
    return dict(stop=stop, acc=out.get('ret'), log=log, sent=sent, pending=out.get('pending'))


def parse_model(line):
    m = re.match(r'(\S+) acc=(\S+) n=(\d+) p=(\S+) left=(\d+) sent=\[(.*?)\] log=\[(.*)\]$', line)
    if not m:
        return None

    def dec(s):
        return '' if s == '-' else ''.join(chr(int(x)) for x in s.split(','))
    return dict(stop=m.group(1), acc=dec(m.group(2)), n=int(m.group(3)), pending=dec(m.group(4)),
                sent=[dec(x) for x in m.group(6).split(';')] if m.group(6) else [],
                log=m.group(7).split(' ') if m.group(7) else [])


def compare(case, out, mline):
    """None if the real run and the model agree on everything the property names"""
    real = canon_real(case, out)
    if not isinstance(real, dict):
        return 'real run ended with %s %s' % (real, out.get('exc'))
    mo = parse_model(mline)
    if mo is None:
        return 'model output unparsable: %r' % mline
    if mo['stop'] == 'fuel' or real['stop'] == 'fuel':
        if mo['stop'] != real['stop']:
            return 'stop: model %s real %s' % (mo['stop'], real['stop'])
        if mo['log'] != real['log']:
            return 'dispatch log (run cut short): model %r real %r' % (mo['log'], real['log'])
        return None
    for key in ('stop', 'acc', 'log', 'sent'):
        if key == 'acc' and real['stop'] == 'typeerror':
            continue            # run() raised: nothing is returned
        if mo[key] != real[key]:
            return '%s: model %r real %r' % (key, mo[key], real[key])
    if real['stop'] in ('cbstop', 'typeerror') and mo['pending'] != real['pending']:
        # after a TIMEOUT index the search buffer may be a trimmed suffix: compare only when the last call hit text
        last = [f for f in out['finals'] if f[0] == 'idx'][-1]
        if last[3] not in ('TIMEOUT',):
            return 'pending: model %r real %r' % (mo['pending'], real['pending'])
    return None


# ------------------------------------------------------------------------------------------------ oracles

def oracle(case, out):
    """the property itself on the real run (independent of the Lean model)"""
    if out['end'].startswith('EXC:'):
        return 'run() raised %s' % out.get('exc')
    if out['end'] not in ('return',):
        return None          # fuel / TypeError: nothing returned to judge
    fin = out['finals']
    got = ''.join(out['delivered'])
    ret = out['ret']
    if not fin:
        return 'run() returned without calling expect'
    # "timeout" reaches the spawn as given (None = no time limit; -1 = the spawn's own default): the scripted transport has no clock,
    # so a limit that run() invents or drops can only be seen here
    ct = (out.get('ctor') or {}).get('timeout', 'missing')
    want_t = case.get('timeout', 30)
    if (want_t == -1 and ct != 30) or (want_t != -1 and ct != want_t):
        return 'run(timeout=%r) built its spawn with timeout=%r' % (want_t, ct)
    want_type = 'str' if case['mode'] == 'u' else 'bytes'
    if out.get('ret_type') != want_type:
        return 'run() returned %s in %s mode' % (out.get('ret_type'), 'unicode' if case['mode'] == 'u' else 'bytes')
    last = fin[-1]
    whole = last[0] in ('EOF', 'TIMEOUT') or (last[0] == 'idx' and last[3] in ('TIMEOUT', 'EOF'))
    if whole:
        if ret != got:
            return 'returned %r but the child wrote %r (stop: %s)' % (ret[:80], got[:80], last[0] if last[0] != 'idx' else 'callback on ' + last[3])
    else:
        if ret + (out['pending'] or '') != got:
            return 'returned %r + pending %r != written %r' % (ret[:80], (out['pending'] or '')[:40], got[:80])
    # what the table says must happen, from naive re-search of the stream after every read with the *caller's* patterns:
    # every reported occurrence (and a listed EOF / TIMEOUT) is answered exactly once, in order, by the response listed with it
    evs = case['events'] or []
    nev = len(evs)
    ecase = dict(mode=case['mode'], script=case['script'],
                 ops=[dict(k='r', W=case.get('W'), pats=[p for p, _ in evs]) for _ in fin])
    naive = X.run_naive(ecase)
    exp = []
    count = 0
    for n, (f, nv) in enumerate(zip(fin, naive)):
        if nv['kind'] in ('hit', 'eofidx', 'timeoutidx'):
            if f[0] == 'idx' and 0 <= f[1] < nev:
                ok = (nv['index'] == f[1] and nv['before'] == f[2] and (nv['after'] == f[3] if nv['kind'] == 'hit' else True))
            else:
                ok = False
            resp = evs[nv['index']][1]
            if resp[0] == 's':
                exp.append(['send', resp[1]])
            elif resp[0] in ('f', 'm'):
                res = case['cb'].get('%d:%d' % (resp[1], count), ['cont', None])
                exp.append(['cbret', resp[1], count, res[0]])
                if res[0] == 's':
                    exp.append(['send', res[1]])
            count += 1
        else:
            # EOF / TIMEOUT not listed by the caller: the call raises (or run() ends the same way by a private index)
            ok = (f[0] == nv['kind'] and f[1] == nv['before']) or \
                 (f[0] == 'idx' and not (0 <= f[1] < nev) and f[3] == nv['kind'] and f[2] == nv['before'])
        if not ok:
            return 'call %d reported %r, naive re-search with the listed patterns says %s' % (n, f, nv['canon'])
        if nv['kind'] not in ('hit', 'eofidx', 'timeoutidx'):
            break
    if out['actions'] != exp:
        return 'responses %r, the event table prescribes %r' % (out['actions'], exp)
    # run() stops at the end of the stream, at a timeout, or when a callback says so - not after an event that merely was answered
    if last[0] == 'idx' and last[3] not in ('EOF', 'TIMEOUT') and 0 <= last[1] < nev and not (exp and exp[-1][0] == 'cbret' and exp[-1][3] == 'stop'):
        return 'stopped after answering an event (%r) with %r still pending: neither EOF, nor a timeout, nor a callback returning true' % (last[3][:20], (out['pending'] or '')[:40])
    if case.get('wx') and out.get('status') != case.get('exit'):
        return 'exit status %r, child exited with %r' % (out.get('status'), case.get('exit'))
    return None


# --------------------------------------------------------------------------------------------- generators

def L(s):
    return ['re', 's', X.lit(s)]


CORPUS = [
    # defect #11 (fixed): TIMEOUT event handled mid-stream duplicated the pending text
    dict(mode='b', events=[[['T'], ['f', 0]], [L('BBB'), ['s', 'x']]], form='list', W=None, cb={'0:2': ['stop', True]},
         script=[['d', 'AAA\r\n'], ['T'], ['T'], ['d', 'BBB'], ['T']], timeout=1),
    dict(mode='u', events=[[['T'], ['f', 0]]], form='list', W=None, cb={'0:1': ['stop', 1]}, script=[['d', 'abc'], ['T'], ['d', 'def'], ['T']], timeout=1),
    # prompt split over reads, two overlapping events, EOF
    dict(mode='b', events=[[L('?'), ['s', 'y\n']], [L('!'), ['m', 0]]], form='dict', W=None, cb={'0:1': ['s', 'n'], '0:3': ['stop', True]},
         script=[['d', 'a'], ['d', '?b'], ['d', '!c?'], ['d', 'zz!'], ['d', 'tail'], ['E']], timeout=-1),
    dict(mode='b', events=None, form='list', W=None, cb={}, script=[['d', 'all '], ['d', 'of it'], ['E']], timeout=30, wx=True, exit=3),
    dict(mode='b', events=[[['E'], ['f', 1]]], form='list', W=None, cb={'1:0': ['stop', True]}, script=[['d', 'xyz'], ['E']], timeout=30),
    dict(mode='b', events=[[L('a'), ['bad', 'none']]], form='list', W=None, cb={}, script=[['d', 'xa']], timeout=30),
    dict(mode='b', events=[[L('ab'), ['s', '1']], [L('a'), ['s', '2']]], form='list', W=None, cb={}, script=[['d', 'a'], ['d', 'b'], ['E']], timeout=30),
    dict(mode='u', events=[[['re', 's', ['eol']], ['s', 'z']]], form='list', W=None, cb={}, script=[['d', 'abc'], ['E']], timeout=30),
    dict(mode='b', events=[[L('ab'), ['s', 'k']]], form='list', W=2, cb={}, script=[['d', 'xxa'], ['d', 'bya'], ['d', 'b'], ['E']], timeout=30),
    # a prompt cut by a read boundary in front of a read of almost maxread characters; an occurrence that lies further back than
    # maxread characters when it becomes complete: run() itself must not narrow the search
    dict(mode='b', events=[[L('password:'), ['s', 'secret\n']]], form='list', W=None, cb={},
         script=[['d', 'x' * 100 + 'passwor'], ['d', 'd:' + 'y' * 1997], ['d', 'tail'], ['E']], timeout=30),
    dict(mode='u', events=[[L('go?'), ['f', 0]], [['E'], ['s', '']]], form='dict', W=None, cb={'0:0': ['s', 'y']},
         script=[['d', 'g'], ['d', 'o' + '.' * 1999], ['d', '.' * 2000 + 'go'], ['d', '?' + '-' * 1999], ['E']], timeout=30),
]


def rand_case(rng):
    mode = rng.choice('bu')
    alph = 'ab?!x\r\n'
    nev = rng.choice([0, 1, 1, 2, 2, 3, 4])
    events, plants = [], []
    ncb = 0
    cbids = []
    have_e = have_t = False
    for _ in range(nev):
        m = rng.random()
        if m < 0.12 and not have_e:
            pat = ['E']; have_e = True
        elif m < 0.27 and not have_t:
            pat = ['T']; have_t = True
        elif m < 0.7:
            s = ''.join(rng.choice(alph) for _ in range(rng.choice([1, 1, 2, 2, 3])))
            pat = L(s); plants.append(s)
        else:
            a = rand_ast(rng, rng.choice([1, 2, 2]), alph)
            fl = rng.choice(['s', 's', '', 'i', 'm'])
            pat = ['re', fl, a]; plants.append(sample(rng, a, alph))
        r = rng.random()
        if r < 0.45:
            resp = ['s', ''.join(rng.choice('yn\n1') for _ in range(rng.choice([0, 1, 2, 3])))]
        elif r < 0.93:
            cid = rng.choice(cbids) if cbids and rng.random() < 0.3 else ncb
            if cid == ncb:
                cbids.append(cid); ncb += 1
            resp = [rng.choice('fm'), cid]
        else:
            resp = ['bad', rng.choice(['none', 'int', 'partial', 'list'])]
        events.append([pat, resp])
    if events and rng.random() < 0.08:
        events = events
    # distinct patterns needed for the dict form
    keys = [json.dumps(p) for p, _ in events]
    form = 'dict' if len(set(keys)) == len(keys) and rng.random() < 0.4 else 'list'
    cb = {}
    for cid in cbids:
        for count in range(FUEL + 2):
            r = rng.random()
            if r < 0.3:
                cb['%d:%d' % (cid, count)] = ['s', ''.join(rng.choice('yn\n') for _ in range(rng.choice([0, 1, 2])))]
            elif r < 0.45 + 0.08 * count:
                cb['%d:%d' % (cid, count)] = ['stop', rng.choice([True, 1, 'x' if False else 2, [0]])]
            elif r < 0.7:
                cb['%d:%d' % (cid, count)] = ['cont', rng.choice([None, False, 0])]
    n = rng.randrange(0, 30)
    text = ''
    while len(text) < n:
        text += rng.choice(plants) if plants and rng.random() < 0.4 else rng.choice(alph)
    cuts = sorted(set(rng.randrange(0, len(text) + 1) for _ in range(rng.randrange(0, 6)))) if text else []
    chunks, prev = [], 0
    for c in cuts + [len(text)]:
        chunks.append(text[prev:c]); prev = c
    script = []
    for c in chunks:
        if c or rng.random() < 0.2:
            script.append(['d', c])
        if rng.random() < (0.25 if have_t else 0.08):
            script.append(['T'])
    if rng.random() < 0.6:
        script.append(['E'])
    L_ = max([len(p) for p in plants] + [1])
    return dict(mode=mode, events=(events if (events or rng.random() < 0.5) else None), form=form,
                W=rng.choice([None, None, None, 1, L_, L_ + 1, 40]), cb=cb, script=script, timeout=rng.choice([-1, 30, 1, None, 0.5]),
                wx=rng.random() < 0.3, exit=rng.choice([0, 1, 3, 255, None]),
                **({'eager': True} if rng.random() < 0.35 else {}))       # the last read met the hang-up too (a child that printed and exited)


def shrink(case, bad):
    cur = copy.deepcopy(case)
    changed = True
    while changed:
        changed = False
        for i in range(len(cur['script'])):
            c = copy.deepcopy(cur); del c['script'][i]
            if bad(c):
                cur = c; changed = True; break
        if changed:
            continue
        for i, ev in enumerate(cur['script']):
            if ev[0] == 'd' and len(ev[1]) > 1:
                for j in range(len(ev[1])):
                    c = copy.deepcopy(cur); c['script'][i][1] = ev[1][:j] + ev[1][j + 1:]
                    if bad(c):
                        cur = c; changed = True; break
                if changed:
                    break
        if changed:
            continue
        for i in range(len(cur['events'] or [])):
            c = copy.deepcopy(cur); del c['events'][i]
            try:
                if bad(c):
                    cur = c; changed = True; break
            except Exception:
                pass
    return cur


def signature(case, out):
    fin = out['finals']
    kinds = tuple(sorted(set((f[0] if f[0] != 'idx' else ('i' + (f[3] if f[3] in ('EOF', 'TIMEOUT') else 'hit'))) for f in fin)))
    acts = tuple(sorted(set(a[0] + (':' + str(a[3]) if a[0] == 'cbret' else '') for a in out['actions'])))
    return (out['end'], kinds, acts, min(len(fin), 4), case['form'], bool(case.get('W')))


# ------------------------------------------------------------------------------------------ real children

CHILD = r'''
import sys, os, json, time, tty, termios, signal
steps = json.loads(sys.argv[2])
tty.setraw(0)
wrote = b''; got = []
def w(b):
    global wrote
    os.write(1, b); wrote += b
for st in steps:
    if st[0] == 'out':
        w(st[1].encode('latin-1'))
    elif st[0] == 'big':
        blk = (st[1].encode('latin-1') * (st[2] // max(1, len(st[1])) + 1))[:st[2]]
        for i in range(0, len(blk), 4096):
            w(blk[i:i+4096])
    elif st[0] == 'ask':
        w(st[1].encode('latin-1'))
        line = b''
        while not line.endswith(b'\n'):
            c = os.read(0, 1)
            if not c: break
            line += c
        got.append(line.decode('latin-1'))
    elif st[0] == 'sleep':
        time.sleep(st[1])
    elif st[0] == 'exit':
        json.dump(dict(wrote=wrote.decode('latin-1'), got=got), open(sys.argv[1], 'w'))
        os._exit(st[1])
    elif st[0] == 'kill':
        json.dump(dict(wrote=wrote.decode('latin-1'), got=got), open(sys.argv[1], 'w'))
        os.kill(os.getpid(), st[1])
json.dump(dict(wrote=wrote.decode('latin-1'), got=got), open(sys.argv[1], 'w'))
'''


class RecSpawn(pexpect.spawn):
    """the real pty spawn, with every transport event, send and expect result recorded"""
    last = None

    def __init__(self, *a, **kw):
        self.rec = []
        self.actions = []
        self.finals = []
        RecSpawn.last = self
        pexpect.spawn.__init__(self, *a, **kw)

    def read_nonblocking(self, size=1, timeout=-1):
        try:
            d = pexpect.spawn.read_nonblocking(self, size, timeout)
        except EOF:
            self.rec.append(['E']); raise
        except TIMEOUT:
            self.rec.append(['T']); raise
        self.rec.append(['d', totext(d)])
        return d

    def send(self, s):
        self.actions.append(['send', totext(s)])
        return pexpect.spawn.send(self, s)

    def expect(self, pattern, timeout=-1, searchwindowsize=-1, async_=False, **kw):
        n0 = len(self.rec)
        try:
            i = pexpect.spawn.expect(self, pattern, timeout, searchwindowsize, async_, **kw)
        except EOF:
            self.finals.append(['EOF', totext(self.before)]); raise
        except TIMEOUT:
            if len(self.rec) == n0 or self.rec[-1][0] != 'T':
                self.rec.append(['X'])
            self.finals.append(['TIMEOUT', totext(self.before)]); raise
        a = self.after
        if a is TIMEOUT and (len(self.rec) == n0 or self.rec[-1][0] != 'T'):
            self.rec.append(['X'])
        self.finals.append(['idx', i, totext(self.before), 'EOF' if a is EOF else 'TIMEOUT' if a is TIMEOUT else totext(a)])
        return i


def child_case(arg):
    """one real-child run() in a worker process"""
    case, tmpdir, n = arg
    common.repo_on_path()
    path = os.path.join(tmpdir, 'child_%d.py' % n)
    tr = os.path.join(tmpdir, 'tr_%d.json' % n)
    open(path, 'w').write(CHILD)
    log = []
    events = build_events(case, log)
    saved = prun.spawn
    prun.spawn = RecSpawn
    out = {}
    try:
        t0 = time.time()
        kw = dict(echo=False)
        if case['mode'] == 'u':
            kw['encoding'] = 'latin-1'
        try:
            ret = prun.run('%s %s %s %s' % (sys.executable, path, tr, "'" + json.dumps(case['steps']) + "'"), timeout=case.get('timeout', 10),
                           withexitstatus=True, events=events, **kw)
            out['ret'] = totext(ret[0]); out['status'] = ret[1]; out['end'] = 'return'
        except Exception as e:  # noqa
            out['end'] = 'EXC:%s' % type(e).__name__; out['exc'] = repr(e)[:300]
        out['wall'] = round(time.time() - t0, 2)
        ch = RecSpawn.last
        out['finals'] = ch.finals; out['script'] = ch.rec
        out['actions'] = []
        # merge callback returns into the action list in order: callbacks append to child.actions themselves
        out['actions'] = ch.actions
        out['delivered'] = [e[1] for e in ch.rec if e[0] == 'd']
        out['pending'] = totext(ch.buffer)
        out['signalstatus'] = ch.signalstatus
        for _ in range(50):
            if os.path.exists(tr):
                break
            time.sleep(0.05)
        try:
            out['transcript'] = json.load(open(tr))
        except Exception:
            out['transcript'] = None
        return out
    finally:
        prun.spawn = saved


def child_oracle(case, out):
    if out['end'] != 'return':
        return 'run() raised %s' % out.get('exc')
    tr = out['transcript']
    fin = out['finals']
    last = fin[-1] if fin else None
    whole = last and (last[0] in ('EOF', 'TIMEOUT') or (last[0] == 'idx' and last[3] in ('TIMEOUT', 'EOF')))
    ended = last and (last[0] == 'EOF' or (last[0] == 'idx' and last[3] == 'EOF'))
    if tr is not None and ended:
        if out['ret'] != tr['wrote']:
            return 'returned %d chars, child wrote %d chars (first difference at %d)' % (
                len(out['ret']), len(tr['wrote']), next((i for i, (a, b) in enumerate(zip(out['ret'], tr['wrote'])) if a != b), min(len(out['ret']), len(tr['wrote']))))
        want = case.get('answers')
        if want is not None and tr['got'] != want:
            return 'child received %r, expected %r' % (tr['got'], want)
    got = ''.join(out['delivered'])
    if whole and out['ret'] != got:
        return 'returned text differs from what was read (%d vs %d chars)' % (len(out['ret']), len(got))
    if not whole and out['ret'] + out['pending'] != got:
        return 'returned + pending differs from what was read'
    if 'exit' in case:
        if out['status'] != case['exit']:
            return 'exit status %r, expected %r' % (out['status'], case['exit'])
    if 'sig' in case and (out['status'] is not None or out['signalstatus'] != case['sig']):
        return 'signal death %r reported as exitstatus %r signalstatus %r' % (case['sig'], out['status'], out['signalstatus'])
    return None


def child_cases(rng, n, big):
    cases = []
    for k in range(n):
        mode = rng.choice('bu')
        nprompts = rng.randrange(0, 5)
        steps, answers = [], []
        evs = [[L('name? '), ['s', 'bob\n']], [L('sure?'), ['f', 0]], [L('pin: '), ['m', 1]]]
        cb = {}
        count = 0
        for _ in range(nprompts):
            if rng.random() < 0.5:
                steps.append(['out', ''.join(rng.choice('abc \r\nxyz') for _ in range(rng.randrange(0, 40)))])
            which = rng.randrange(3)
            steps.append(['ask', ['name? ', 'sure?', 'pin: '][which]])
            if which == 0:
                answers.append('bob\n')
            else:
                a = 'y%d\n' % count
                cb['%d:%d' % (which - 1, count)] = ['s', a]
                answers.append(a)
            count += 1
        if rng.random() < 0.4:
            steps.append(['big', 'payload-%d\n' % k, rng.choice([5000, 70000, big])])
        steps.append(['out', 'bye'])
        case = dict(mode=mode, events=copy.deepcopy(evs), form=rng.choice(['list', 'dict']), cb=cb, steps=steps, answers=answers, timeout=20)
        r = rng.random()
        if r < 0.6:
            code = rng.choice([0, 1, 2, 77, 255])
            steps.append(['exit', code]); case['exit'] = code
        elif r < 0.8:
            steps.append(['kill', rng.choice([9, 15])]); case['sig'] = steps[-1][1]
        else:
            case['exit'] = 0
        cases.append(case)
    # TIMEOUT event mid-stream (defect #11): the child pauses longer than the timeout, the callback lets it go on, then stops
    for pause_at in (0, 1):
        steps = [['out', 'AAA\r\n'], ['sleep', 1.2], ['out', 'BBB'], ['sleep', 1.2], ['out', 'CCC'], ['exit', 5]]
        cases.append(dict(mode='b', events=[[['T'], ['f', 0]]], form='list', cb=({'0:1': ['stop', True]} if pause_at else {}), steps=steps,
                          timeout=0.5, exit=5 if not pause_at else None, **({} if not pause_at else {})))
    return cases


def model_check_child(case, out):
    c = dict(case, script=out['script'], W=None)
    return c


# ------------------------------------------------------------------------------------------------ driver

def evaluate(case, mline=None):
    out = run_real(case)
    res = dict(out=out, oracle=oracle(case, out), diff=None)
    if mline is not None:
        res['diff'] = compare(case, out, mline)
    return res


def run(ctx):
    common.prove(ctx, ['C12'])
    if not ctx.quick():
        common.leanchecker(ctx, ['C12'])
    cases = list(map(copy.deepcopy, CORPUS))
    nrand = 3000 if ctx.quick() else 40000
    for _ in range(nrand):
        cases.append(rand_case(ctx.rng))
    try:
        mouts = common.run_model([model_line(c) for c in cases])
    except common.ModelUnavailable as e:
        mouts = [None] * len(cases)
        ctx.broken.append('model driver unavailable: ' + str(e)[:300])
    sigs = collections.Counter()
    first_or = first_diff = None
    samples = []
    for n, (c, mo) in enumerate(zip(cases, mouts)):
        res = evaluate(c, mo)
        sigs[signature(c, res['out'])] += 1
        if n < 3:
            samples.append(dict(case=c, returned=res['out'].get('ret'), finals=res['out']['finals'], actions=res['out']['actions']))
        if res['oracle'] and first_or is None:
            first_or = (c, res)
        if res['diff'] and first_diff is None:
            first_diff = (c, res, mo)
    if first_or:
        c, res = first_or
        small = shrink(c, lambda cc: evaluate(cc)['oracle'] is not None)
        r2 = evaluate(small)
        common.report(ctx, 'run/scripted/%s' % (r2['oracle'] or '').split(' ')[0], r2['oracle'],
                      dict(kind='scripted', case=small, real=r2['out']))
    elif first_diff:
        c, res, mo = first_diff
        ctx.broken.append('correspondence run-loop model vs pexpect.run on %s: %s' % (json.dumps(c)[:300], res['diff']))
    # real children
    nchild = 24 if ctx.quick() else 200
    ccases = child_cases(ctx.rng, nchild, 300000)
    with multiprocessing.Pool(8) as pool:
        couts = pool.map(child_case, [(c, ctx.tmp, n) for n, c in enumerate(ccases)])
    clines = []
    for c, o in zip(ccases, couts):
        small = sum(len(e[1]) for e in o['script'] if e[0] == 'd') <= 20000
        clines.append(model_line(dict(c, W=None), script=(o['script'] if small else [])))
    try:
        cm = common.run_model(clines)
    except common.ModelUnavailable:
        cm = [None] * len(clines)
    child_fail = None
    child_diff = None
    big = 0
    for c, o, ml in zip(ccases, couts, cm):
        msg = child_oracle(c, o)
        if msg and child_fail is None:
            child_fail = (c, o, msg)
        big = max(big, len(o.get('ret') or ''))
        if ml is not None and o['end'] == 'return' and len(o.get('ret') or '') <= 20000:
            o2 = dict(o); o2['actions'] = o['actions']
            d = compare(dict(c, W=None), o2, ml)
            if d and child_diff is None:
                child_diff = (c, o, d)
        sigs[('child',) + signature(c, o)] += 1
    if child_fail and not ctx.violations:
        c, o, msg = child_fail
        # a real-process failure must reproduce
        again = [child_oracle(c, child_case((c, ctx.tmp, 9000 + k))) for k in range(2)]
        if all(again):
            common.report(ctx, 'run/child/%s' % msg.split(' ')[0], msg, dict(kind='child', case=c, finals=o['finals'][-3:], actions=o['actions'][-6:]))
        else:
            ctx.notes.append('unreproduced real-child anomaly: ' + msg)
    elif child_diff and not ctx.violations and not ctx.broken:
        c, o, d = child_diff
        ctx.broken.append('correspondence run-loop model vs real child run: %s on %s' % (d, json.dumps(c)[:300]))
    ctx.cov['scripted_cases'] = len(cases)
    ctx.cov['child_runs'] = len(ccases)
    ctx.cov['largest_output'] = big
    ctx.cov['stop_histogram'] = dict(collections.Counter(k[0] if k[0] != 'child' else 'child:' + k[1] for k in sigs.elements()))
    distinct = sum(1 for s in sigs if s[0] == 'child' or s[3] >= 2 or s[0] != 'return')
    return common.finish(
        ctx,
        'corpus, then structured random run() configurations on a scripted spawn (event tables as list / dict; string, function, '
        'bound-method and invalid responses; EOF / TIMEOUT keys; planted occurrences cut across reads; callback result tables), then '
        'real pty children (prompts, big payloads, exit codes, signals, TIMEOUT events) whose recorded reads are replayed through the model; '
        'distinct = (how the run ended, kinds of call results, kinds of actions, calls (capped), table form, window); non-trivial when the run '
        'made >= 2 calls or did not end by returning',
        samples, len(cases) + len(ccases), distinct,
        assumptions=['the scripted stage replaces pexpect.run.spawn by a SpawnBase subclass with a scripted read_nonblocking; expect(), the Expecter and run() are the real code',
                     'an endless real run is cut after %d dispatches and compared with the model on that prefix' % FUEL])


def replay(ctx, path):
    d = json.load(open(path))
    r = d['replay']
    if r.get('kind') == 'child':
        o = child_case((r['case'], ctx.tmp, 1))
        msg = child_oracle(r['case'], o)
        print(json.dumps(dict(finals=o['finals'][-3:], oracle=msg), indent=1))
        return 1 if msg else 0
    res = evaluate(r['case'])
    print(json.dumps(dict(real=res['out'], oracle=res['oracle']), indent=1, default=repr))
    return 1 if res['oracle'] else 0
