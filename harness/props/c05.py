"""C05 deadlines: clock skeleton theorems + the real transports under a virtual clock + a small real-time stage."""
import os, re, json, time, itertools, signal, collections, socket as socket_mod
from lib import common
common.repo_on_path()
import pexpect
from pexpect import fdpexpect, socket_pexpect, popen_spawn, EOF, TIMEOUT
from pexpect.expect import searcher_re, searcher_string
from drivers import transports as T
from drivers import vclock as V

DEFAULT_T = 2.0
SLACK = 0.25          # virtual seconds of bounded overhead the oracle allows
PATTERNS = ['silence', 'trickle', 'burst_before', 'burst_after', 'match_mid', 'exit_mid', 'immediate', 'trickle_then_match']
# the same child behaviours while the parent handles a signal every 0.2371 virtual seconds (handler: 3 ms), the waits failing with EINTR
SIG_PATTERNS = ['silence+sig', 'trickle+sig', 'burst_before+sig', 'burst_after+sig', 'match_mid+sig']
SIG_EVERY, SIG_COST = 0.2371, 0.003
# unicode mode: reads that hold only a piece of a multi-byte character deliver no text; the deadline still counts
U8_PATTERNS = ['u8:partial_char', 'u8:partial_then_match', 'u8:byte_trickle']
# a child that keeps talking to an object whose every read comes back full (maxread=1; maxread=4 against 4-byte writes): the deadline is overall
MR_PATTERNS = ['trickle@1', 'trickle_then_match@1', 'burst_before@1', 'blocks@4']
TRANSPORTS = ['pty-select', 'pty-poll', 'fd-select', 'fd-poll', 'socket', 'socket-own', 'popen']     # socket-own: the socket carries its own 0.25 s timeout
ENTRIES = ['expect', 'expect_exact', 'expect_list', 'expect_loop', 'read_nonblocking']
TS = [-1, None, 0, 2.0, 0.7]


class PopenPeer(object):
    def __init__(self, encoding=None):
        import tempfile
        self.d = tempfile.mkdtemp(prefix='verif_pod_')
        self.c = os.path.join(self.d, 'c'); self.a = os.path.join(self.d, 'a')
        os.mkfifo(self.c); os.mkfifo(self.a)
        self.p = popen_spawn.PopenSpawn([common.PY, '-c', T.POPEN_CHILD, self.c, self.a], timeout=DEFAULT_T, encoding=encoding)
        self.cw = os.open(self.c, os.O_WRONLY); self.ar = os.open(self.a, os.O_RDONLY)
        assert os.read(self.ar, 1) == b'R'
        self.exited = False

    def write(self, data):
        if self.exited:
            return
        q0 = common.qlen(self.p)
        os.write(self.cw, b'W' + len(data).to_bytes(4, 'big') + data); os.read(self.ar, 1)
        for _ in range(2000):
            if common.qlen(self.p) > q0:
                break
            time.sleep(0.0005)

    def exit(self):
        if self.exited:
            return
        self.exited = True
        q0 = common.qlen(self.p)
        os.write(self.cw, b'E'); os.read(self.ar, 1)
        for _ in range(4000):
            if common.qlen(self.p) > q0:
                break
            time.sleep(0.0005)

    def close(self):
        import shutil
        self.exit()
        for fd in (self.cw, self.ar):
            try:
                os.close(fd)
            except OSError:
                pass
        try:
            self.p.proc.wait(); self.p.proc.stdout.close(); self.p.proc.stdin.close()
        except Exception:
            pass
        shutil.rmtree(self.d, ignore_errors=True)


def arrivals_for(pattern, Teff, write, finish):
    """list of (dt, action); Teff = the deadline the call will use (None -> 2.0 for placement)"""
    D = 2.0 if Teff is None else Teff
    pattern = pattern.split('+')[0].split('@')[0]
    if pattern == 'blocks':
        return [(0.0931, lambda: write(b'wxyz'))] * 80
    if pattern == 'silence':
        return []
    if pattern == 'trickle':
        return [(0.1731, lambda: write(b'x'))] * 40
    if pattern == 'trickle_then_match':
        return [(0.1731, lambda: write(b'x'))] * 3 + [(0.0517, lambda: write(b'MATCH'))]
    if pattern == 'burst_before':
        return [(max(0.0, D - 0.0713), lambda: write(b'yyyyyyyyyy'))]
    if pattern == 'burst_after':
        return [(D + 0.1113, lambda: write(b'MATCH'))]
    if pattern == 'match_mid':
        return [(min(1.0131, D / 2 + 0.0131), lambda: write(b'..MATCH..'))]
    if pattern == 'exit_mid':
        return [(0.3071, lambda: write(b'bye')), (0.2113, finish)]
    if pattern == 'immediate':
        return []
    if pattern == 'u8:partial_char':
        return [(0.1731, lambda: write(b'\xe2\x82'))]
    if pattern == 'u8:partial_then_match':
        return [(0.1731, lambda: write(b'\xe2\x82')), (0.2113, lambda: write(b'\xacMATCH'))]
    if pattern == 'u8:byte_trickle':
        bs = '\u20ac\u00e9\u672c'.encode('utf-8') * 12
        return [(0.0731, (lambda b=bytes([b]): write(b))) for b in bs]
    raise ValueError(pattern)


def scenario(transport, entry, Targ, pattern, rng=None):
    """-> dict(outcome, elapsed, T, events, d0, start, finish, note)"""
    clk = V.VClock(tick=(2e-4 if transport == 'popen' else 1e-5))
    Teff = DEFAULT_T if Targ == -1 else Targ
    cleanup = []
    ctl = None
    enc = 'utf-8' if pattern.startswith('u8:') else None
    if transport.startswith('pty'):
        ctl = T.PtyCtl([], use_poll=transport.endswith('poll'), encoding=enc)
        p = ctl.p
        p.timeout = DEFAULT_T

        def write(b):
            ctl.script = [('W', b)]; ctl.act1()

        def finish():
            ctl.script = [('E',)]; ctl.act1()
        cleanup.append(ctl.close)
    elif transport.startswith('fd'):
        peer = T.FdPeer([], 'fd')
        p = fdpexpect.fdspawn(peer.rfd, timeout=DEFAULT_T, use_poll=transport.endswith('poll'), encoding=enc)

        def write(b):
            peer.script = [('W', b)]; peer.act1()

        def finish():
            peer.script = [('C',)]; peer.act1()
        cleanup.append(lambda: (peer.cleanup(), os.close(peer.rfd)))
    elif transport in ('socket', 'socket-own'):
        peer = T.FdPeer([], 'socket')
        if transport == 'socket-own':
            peer.rsock.settimeout(0.25)
        p = socket_pexpect.SocketSpawn(V.VSock(peer.rsock, clk), timeout=DEFAULT_T, encoding=enc)

        def write(b):
            peer.script = [('W', b)]; peer.act1()

        def finish():
            peer.script = [('C',)]; peer.act1()
        cleanup.append(lambda: (peer.cleanup(), peer.rsock.close()))
    else:
        pp = PopenPeer(enc)
        p = pp.p
        write, finish = pp.write, pp.exit
        cleanup.append(pp.close)
    try:
        if '@' in pattern:
            p.maxread = int(pattern.split('@')[1])
        if pattern == 'immediate':
            write(b'MATCH now')
        reads = []
        V.instrument_reads(p, clk, reads)
        pat = 'MATCH' if enc else b'MATCH'
        with V.Install(clk, transport, p=p, ctl=ctl):
            if pattern.endswith('+prior'):
                # an earlier call on the same object, with a time limit of its own that has long run out when the call under test starts:
                # every call's deadline is its own
                clk.horizon = clk.now + 120
                try:
                    p.expect_exact('\x00never' if enc else b'\x00never', timeout=0.05)
                except TIMEOUT:
                    pass
                clk.horizon = None
                clk.sleep(0.3)
                del reads[:]
            clk.schedule(arrivals_for(pattern, Teff, write, finish))
            if pattern.endswith('+sig'):
                clk.interrupts = [clk.now + SIG_EVERY * k + 0.00007 for k in range(1, 200)]
                clk.handler_cost = SIG_COST
            start = clk.now
            outcome = None
            clk.horizon = start + (max(Teff, 0) + 120 if Teff is not None else 3600)
            try:
                kw = {} if Targ == -1 and rng is not None and rng.random() < 0.5 else {'timeout': Targ}
                if entry == 'expect':
                    p.expect(pat, **kw); outcome = 'hit'
                elif entry == 'expect_exact':
                    p.expect_exact(pat, **kw); outcome = 'hit'
                elif entry == 'expect_list':
                    p.expect_list([re.compile(pat)], **kw); outcome = 'hit'
                elif entry == 'expect_loop':
                    p.expect_loop(searcher_re([re.compile(pat)]), **kw); outcome = 'hit'
                else:
                    if transport == 'popen':
                        d = p.read_nonblocking(100, Targ)
                    else:
                        d = p.read_nonblocking(100, **kw)
                    outcome = 'data' if d else 'empty'
            except TIMEOUT:
                outcome = 'timeout'
            except EOF:
                outcome = 'eof'
            except V.WouldBlockForever:
                outcome = 'blocks-forever'
            except V.RanAway:
                outcome = 'exc:still-running-120-virtual-seconds-after-the-deadline'
            except Exception as ex:     # noqa
                outcome = 'exc:' + type(ex).__name__
            clk.horizon = None
            finish_t = clk.now
    finally:
        for c in cleanup:
            try:
                c()
            except Exception:
                pass
    us = lambda x: int(round(x * 1e6))
    # the transport contract (Rt.fd_contract / socket_contract / pty_contract / popen_bounded): a read given timeout t returns
    # within t + (2*size + 5) non-blocking system calls, and raises TIMEOUT only after t
    contract = None
    size = getattr(p, 'maxread', 2000) if entry != 'read_nonblocking' else 100
    # one non-blocking system call costs up to four clock ticks here (the wrappers read the clock around it); poll() rounds its timeout up to a whole millisecond
    over = (2 * size + 5) * 4 * clk.tick + 1e-9 + (0.001 if transport.endswith('poll') else 0.0)
    if pattern.endswith('+sig'):
        over += SIG_COST + 4 * clk.tick       # Rt.selII_contract: a wait that is interrupted returns within its timeout + one handler run
    for (t0, t1, kind, n, tmo) in reads:
        tm = p.timeout if tmo == -1 else tmo
        if tm is None:
            if kind == 'timeout':
                contract = 'a read with timeout=None raised TIMEOUT'
            continue
        tm = max(tm, 0)
        if t1 - t0 > tm + over:
            contract = 'a read given timeout %.4f returned after %.4f s (allowed overhead %.4f)' % (tm, t1 - t0, over); break
        if kind == 'timeout' and transport != 'popen' and t1 - t0 < tm - 1e-9:
            contract = 'a read given timeout %.4f raised TIMEOUT after only %.4f s' % (tm, t1 - t0); break
    evs = []
    if entry != 'read_nonblocking':
        for i, r in enumerate(reads):
            nxt = reads[i + 1][0] if i + 1 < len(reads) else finish_t
            kind = {'timeout': 'timeout', 'eof': 'eof'}.get(r[2])
            if kind is None:
                kind = 'hit' if (i == len(reads) - 1 and outcome == 'hit') else 'miss'
            evs.append((us(nxt) - us(r[0]), kind))
    s_eff = start + (clk.tick if Teff is not None else 0.0)      # `end_time = time.time() + timeout` reads the clock once
    d0 = (us(reads[0][0]) if reads else us(finish_t)) - us(s_eff)
    return dict(eintr=clk.eintr, outcome=outcome, elapsed=finish_t - start, T=Teff, events=evs, d0=max(0, d0), start=us(s_eff), finish=us(finish_t),
                hit0=(outcome == 'hit' and not reads), nreads=len(reads), contract=contract)


def oracle(transport, entry, Targ, pattern, r):
    Teff, out, el = r['T'], r['outcome'], r['elapsed']
    if out.startswith('exc') or out == 'blocks-forever':
        return 'the call ended with %s' % out
    if r.get('contract'):
        return r['contract']
    if Teff is not None:
        if el > max(Teff, 0) + SLACK:
            return 'took %.4f s with timeout %s (bound %.2f s)' % (el, Teff, max(Teff, 0) + SLACK)
        if out == 'timeout' and el < Teff - 1e-6:
            return 'TIMEOUT after %.4f s, before the timeout %s elapsed' % (el, Teff)
    else:
        if out == 'timeout':
            return 'TIMEOUT reported with timeout=None'
    pattern = pattern.split('+')[0].split('@')[0]
    if entry != 'read_nonblocking':
        if pattern == 'immediate' and out != 'hit' and not (Teff is not None and Teff < 0):
            return 'text that was already readable was not examined (timeout %s): %s' % (Teff, out)
        if pattern in ('match_mid', 'trickle_then_match', 'u8:partial_then_match') and Teff is not None and Teff >= 1.5 and out != 'hit':
            return 'a match arriving before the deadline ended in %s' % out
        if pattern == 'burst_after' and Teff is not None and out == 'hit':
            return 'matched text that arrived after the deadline'
    else:
        if pattern == 'immediate' and out != 'data':
            return 'read_nonblocking(timeout=%s) did not return immediately readable data: %s' % (Teff, out)
    return None


def model_line(r, eps_us=250000):
    Tm = 'none' if r['T'] is None else str(int(round(r['T'] * 1e6)))
    return 'DL %s %d %d %d %d %s' % (Tm, r['start'], r['d0'], 1 if r['hit0'] else 0, eps_us, ' '.join('%d:%s' % e for e in r['events']))


def stage_virtual(ctx, stats, sigs):
    rng = ctx.rng
    combos = []
    for tr in TRANSPORTS:
        for en in ENTRIES:
            for Ta in TS + [-0.5]:
                for pa in PATTERNS:
                    if Ta == -0.5 and en == 'read_nonblocking':
                        continue           # a negative timeout (the time has already run out) is a convention of the expect family only
                    if Ta is None and pa in ('silence', 'trickle', 'burst_before'):
                        continue           # would (correctly) block forever
                    if tr == 'popen' and Ta is None and en == 'read_nonblocking':
                        continue           # PopenSpawn.read_nonblocking never blocks
                    combos.append((tr, en, Ta, pa))
    sig_combos = []
    for tr in ('pty-select', 'pty-poll', 'fd-select', 'fd-poll'):
        for en in ENTRIES:
            for Ta in TS:
                for pa in SIG_PATTERNS:
                    if Ta is None and pa.split('+')[0] in ('silence', 'trickle', 'burst_before'):
                        continue
                    sig_combos.append((tr, en, Ta, pa))
    u8_combos = []
    for tr in TRANSPORTS:
        for en in ENTRIES:
            for Ta in TS:
                for pa in U8_PATTERNS:
                    if Ta is None and pa != 'u8:partial_then_match':
                        continue
                    if tr == 'popen' and Ta is None and en == 'read_nonblocking':
                        continue
                    u8_combos.append((tr, en, Ta, pa))
    mr_combos = []
    for tr in TRANSPORTS:
        for en in ENTRIES[:4]:
            for Ta in (-1, 2.0, 0.7):
                for pa in MR_PATTERNS:
                    mr_combos.append((tr, en, Ta, pa))
    prior_combos = []
    for tr in TRANSPORTS:
        if tr == 'popen':
            continue
        for en in ENTRIES[:4]:
            for Ta in TS:
                for pa in ('trickle_then_match', 'match_mid', 'silence', 'burst_after', 'exit_mid', 'trickle'):
                    if Ta is None and pa in ('silence', 'trickle', 'burst_before'):
                        continue
                    prior_combos.append((tr, en, Ta, pa + '+prior'))
    corpus = [('fd-select', 'expect', None, 'trickle_then_match+prior'), ('pty-poll', 'expect_exact', -1, 'trickle_then_match+prior'),
              ('socket', 'expect_list', 2.0, 'match_mid+prior'), ('pty-select', 'expect_loop', None, 'exit_mid+prior'),
              ('fd-select', 'expect', 2.0, 'trickle@1'), ('pty-poll', 'expect_exact', 0.7, 'blocks@4'),
              ('pty-select', 'expect', 0.7, 'u8:partial_char'), ('fd-poll', 'read_nonblocking', 0.7, 'u8:partial_char'), ('fd-select', 'expect_exact', 2.0, 'u8:partial_then_match'),
              ('socket-own', 'expect', None, 'match_mid'), ('socket-own', 'read_nonblocking', None, 'match_mid'), ('socket-own', 'expect_exact', 2.0, 'match_mid'),
              ('pty-select', 'expect', 2.0, 'trickle'), ('socket', 'expect', 0, 'silence'), ('socket', 'expect', 0, 'immediate'),
              ('popen', 'expect', 0, 'immediate'), ('pty-select', 'expect_loop', -1, 'silence'), ('fd-poll', 'expect_list', -1, 'burst_after'),
              ('pty-poll', 'read_nonblocking', 0.7, 'silence'), ('popen', 'expect_exact', 0.7, 'trickle'),
              ('pty-select', 'expect', -0.5, 'silence'), ('socket', 'expect_exact', -0.5, 'immediate'), ('fd-poll', 'expect_list', -0.5, 'trickle')]
    if ctx.quick():
        rng.shuffle(combos)
        rng.shuffle(sig_combos); rng.shuffle(u8_combos); rng.shuffle(mr_combos); rng.shuffle(prior_combos)
        combos = corpus + combos[:110] + u8_combos[:25] + mr_combos[:25] + [('pty-select', 'expect', 0.7, 'silence+sig'), ('fd-poll', 'expect_exact', 2.0, 'trickle+sig')] + sig_combos[:40] + prior_combos[:25]
    else:
        combos = corpus + combos + sig_combos + u8_combos + mr_combos + prior_combos
    results = []
    for (tr, en, Ta, pa) in combos:
        r = scenario(tr, en, Ta, pa, rng)
        results.append(((tr, en, Ta, pa), r))
        sigs.add((tr, en, str(Ta), pa, r['outcome']))
    try:
        mouts = common.run_model([model_line(r) for _, r in results])
    except common.ModelUnavailable as e:
        ctx.broken.append('model driver unavailable: ' + str(e)[:300]); mouts = [None] * len(results)
    for ((tr, en, Ta, pa), r), mo in zip(results, mouts):
        msg = oracle(tr, en, Ta, pa, r)
        if msg:
            common.report(ctx, 'deadline/%s/%s/T=%s/%s' % (tr.split('-')[0], en, Ta, pa), '%s %s(timeout=%s), child %s: %s' % (tr, en, Ta, pa, msg),
                          dict(transport=tr, entry=en, timeout=Ta, pattern=pa, outcome=r['outcome'], elapsed=r['elapsed'], events=r['events'],
                               how='harness/props/c05.py scenario(transport, entry, timeout, pattern)'))
            continue
        if mo is not None and en != 'read_nonblocking':
            want = {'hit': 'hit', 'timeout': 'timeout', 'eof': 'eof'}.get(r['outcome'], r['outcome'])
            parts = mo.split(' ')
            if parts[0] != want or int(parts[1]) != r['finish'] or parts[2] != 'ok=true':
                ctx.broken.append('correspondence deadline model vs %s %s(timeout=%s) child %s: real (%s, %d) model %s; events %s' % (
                    tr, en, Ta, pa, r['outcome'], r['finish'], mo, r['events'][:8]))
    stats['virtual_scenarios'] = len(results)
    stats['waits_interrupted_by_signals'] = sum(r.get('eintr', 0) for _, r in results)


def stage_wrappers(ctx, stats, sigs):
    """pexpect.utils.select_ignore_interrupts / poll_ignore_interrupts against Rt.selII: the real wrappers over a pipe, the system call
    underneath waiting in virtual time and failing with EINTR at scripted moments (times in units of 1/8 s, exact in binary floating point)"""
    import pexpect.utils as UT
    rng = ctx.rng
    U = 0.125
    cases = [(8, None, 1, [3, 3, 3, 3]), (8, 5, 1, [3, 3]), (8, None, 3, [7]), (0, 0, 1, []), (0, None, 0, [1]), (5, 9, 0, [2, 2, 2, 2, 2]), (6, 6, 2, [3, 3])]
    for _ in range(300 if ctx.quick() else 6000):
        cases.append((rng.randrange(0, 41), rng.choice([None, None] + list(range(0, 50))), rng.randrange(0, 6),
                      [rng.randrange(1, 16) for _ in range(rng.randrange(0, 9))]))
    lines = ['SI %d %s %d %s' % (T_, 'none' if r is None else r, h, ','.join(map(str, ds)) or '-') for (T_, r, h, ds) in cases]
    try:
        mouts = common.run_model(lines)
    except common.ModelUnavailable as e:
        ctx.broken.append('model driver unavailable: ' + str(e)[:300]); return
    saved = (UT.select, UT.time)
    n = 0
    try:
        for which in ('select', 'poll'):
            for (T_, r, h, ds), mo in zip(cases, mouts):
                clk = V.VClock(tick=0.0)
                rfd, wfd = os.pipe()
                try:
                    UT.select = V.SelectProxy(clk); UT.time = clk
                    start = clk.now
                    if r is not None:
                        clk.arrivals.append([start + r * U, lambda: os.write(wfd, b'x')])
                    t, ints = start, []
                    for d in ds:
                        t = t + d * U
                        ints.append(t)
                        t = t + h * U
                    clk.interrupts = ints
                    clk.handler_cost = h * U
                    clk.horizon = start + 1000
                    try:
                        if which == 'select':
                            res = bool(UT.select_ignore_interrupts([rfd], [], [], T_ * U)[0])
                        else:
                            res = bool(UT.poll_ignore_interrupts([rfd], T_ * U))
                        real = '%s %d' % ('true' if res else 'false', int(round((clk.now - start) / U)))
                    except V.RanAway:
                        real = 'still waiting 1000 virtual seconds later'
                    except Exception as ex:     # noqa
                        real = 'raises %s' % type(ex).__name__
                finally:
                    UT.select, UT.time = saved
                    os.close(rfd); os.close(wfd)
                n += 1
                if real != mo:
                    # the contract itself (Rt.selII_contract), judged on the real run
                    msg = None
                    parts = real.split(' ')
                    if parts[0] not in ('true', 'false'):
                        msg = real
                    else:
                        fin = int(parts[1])
                        if fin > T_ + h:
                            msg = 'returned after %d/8 s: later than the timeout (%d/8 s) plus one handler run (%d/8 s)' % (fin, T_, h)
                        elif parts[0] == 'false' and fin < T_:
                            msg = 'reported "nothing ready" after %d/8 s, before the timeout of %d/8 s' % (fin, T_)
                        elif parts[0] == 'true' and (r is None or r > fin):
                            msg = 'reported the descriptor ready at %d/8 s; it becomes ready at %s' % (fin, r)
                    if msg:
                        common.report(ctx, 'deadline/%s_ignore_interrupts' % which,
                                      'utils.%s_ignore_interrupts(timeout=%d/8 s), descriptor ready at %s, signals %s after each (re)start, handler %d/8 s: %s' % (which, T_, r, ds, h, msg),
                                      dict(wrapper=which, timeout_eighths=T_, ready_eighths=r, handler_eighths=h, signal_delays_eighths=ds, real=real, model=mo))
                    else:
                        ctx.broken.append('correspondence Rt.selII vs utils.%s_ignore_interrupts on T=%d ready=%s h=%d sigs=%s: real %s model %s' % (which, T_, r, h, ds, real, mo))
                    break
    finally:
        UT.select, UT.time = saved
    stats['wrapper_runs'] = n
    sigs.add(('wrappers', n > 0))


def stage_hangup(ctx, stats, sigs):
    """the child closes its terminal but stays alive: ptyprocess waits for it with a blocking waitpid"""
    clk = V.VClock()
    ctl = T.PtyCtl([])
    p = ctl.p
    try:
        def close_tty():
            ctl.script = [('C',)]; ctl.act1()

        def exit_():
            ctl.script = [('E',)]; ctl.act1()
        close_tty()                      # the hang-up is already visible when the call starts
        clk.schedule([(30.0, exit_)])
        with V.Install(clk, 'pty', p=p, ctl=ctl):
            t0 = clk.now
            try:
                p.expect([b'never', EOF], timeout=1.0); out = 'eofidx'
            except TIMEOUT:
                out = 'timeout'
            except Exception as ex:   # noqa
                out = type(ex).__name__
            el = clk.now - t0
    finally:
        ctl.close()
    sigs.add(('hangup', out))
    stats['hangup_elapsed_virtual_s'] = round(el, 3)
    if el > 1.0 + SLACK:
        common.report(ctx, 'pty/hangup-without-exit/blocking-waitpid',
                      'child has closed its terminal and lives on for 30 s: expect([..., EOF], timeout=1.0) returned after %.1f s (blocking waitpid in ptyprocess.isalive once EOF is flagged)' % el,
                      dict(scenario='child closes its tty, exits 30 s later; expect([never, EOF], timeout=1.0)', elapsed=el, outcome=out))


def stage_waitnoecho(ctx, stats, sigs):
    import termios
    n = 0
    lines, reals = [], []
    for (Targ, off_at) in [(1.0, None), (1.0, 0.35), (-1, None), (None, 0.55), (0, None), (0.3, 0.05), (-1, 1.25)]:
        clk = V.VClock()
        p = pexpect.spawn('cat', timeout=DEFAULT_T, echo=True)
        try:
            time.sleep(0.05)
            if off_at is not None:
                clk.schedule([(off_at, lambda: p.setecho(False))])
            saved_setecho_delay = None
            polls = []
            orig_getecho = p.getecho

            def getecho():
                polls.append(clk.now)
                return orig_getecho()
            p.getecho = getecho
            with V.Install(clk, 'pty', p=p):
                t0 = clk.now
                clk.horizon = t0 + (60 if Targ is not None else 600)
                try:
                    res = p.waitnoecho(Targ) if Targ != -1 else p.waitnoecho()
                except V.RanAway:
                    res = 'still polling %d virtual seconds after the call started' % (60 if Targ is not None else 600)
                except Exception as ex:   # noqa
                    res = 'exc:' + type(ex).__name__
                clk.horizon = None
                el = clk.now - t0
        finally:
            p.close(force=True)
        n += 1
        Teff = DEFAULT_T if Targ == -1 else Targ
        sigs.add(('waitnoecho', str(Targ), off_at is None, str(res)))
        msg = None
        if isinstance(res, str):
            msg = 'waitnoecho(%s) raised %s' % (Targ, res)
        elif Teff is not None and el > Teff + 0.2 + SLACK:
            msg = 'waitnoecho(%s) took %.3f s' % (Targ, el)
        elif res is False and Teff is not None and el < Teff - 1e-6:
            msg = 'waitnoecho(%s) gave up after %.3f s' % (Targ, el)
        elif res is False and Teff is None:
            msg = 'waitnoecho(None) gave up'
        elif off_at is not None and (Teff is None or off_at < Teff - 0.15) and res is not True:
            msg = 'echo was switched off at %.2f s but waitnoecho(%s) returned %r' % (off_at, Targ, res)
        if msg:
            common.report(ctx, 'waitnoecho/T=%s' % Targ, msg, dict(timeout=Targ, echo_off_at=off_at, result=repr(res), elapsed=el))
        # model: one event per getecho poll
        us = lambda x: int(round(x * 1e6))
        evs = []
        prev = t0
        for i, tp in enumerate(polls):
            on = not (off_at is not None and tp - t0 >= off_at)
            evs.append('%d:%d' % (max(0, us(tp - prev) - (100000 if i else 0)), 1 if on else 0))
            prev = tp
        lines.append('WN %s %d 100000 %s' % ('none' if Teff is None else us(Teff), 0, ' '.join(evs)))
        reals.append((str(res), Targ, off_at))
    try:
        mouts = common.run_model(lines)
        for l, mo, (res, Targ, off) in zip(lines, mouts, reals):
            if mo.split(' ')[0] != res:
                ctx.broken.append('correspondence waitnoecho model vs real for timeout=%s echo-off-at=%s: real %s model %s (%s)' % (Targ, off, res, mo, l[:200]))
    except common.ModelUnavailable as e:
        ctx.broken.append('model driver unavailable: ' + str(e)[:200])
    stats['waitnoecho_scenarios'] = n


def stage_realtime(ctx, stats, sigs):
    """wall clock, real select: validates the virtual-clock assumption, incl. signals handled while waiting"""
    n = 3 if ctx.quick() else 20
    hits = []
    old = signal.signal(signal.SIGALRM, lambda *a: hits.append(1))
    try:
        for i in range(n):
            Tv = [0.3, 0.0, 0.5][i % 3]
            kind = ['pty', 'fd', 'socket'][i % 3] if i >= 3 else 'pty'
            if kind == 'pty':
                p = pexpect.spawn('sh', ['-c', 'while :; do printf x; sleep 0.02; done'], timeout=5)
                closer = lambda: p.close(force=True)
            elif kind == 'fd':
                r, w = os.pipe(); p = fdpexpect.fdspawn(r, timeout=5); closer = lambda: (os.close(r), os.close(w))
            else:
                a, b = socket_mod.socketpair(); p = socket_pexpect.SocketSpawn(a, timeout=5); closer = lambda: (a.close(), b.close())
            signal.setitimer(signal.ITIMER_REAL, 0.05, 0.05)
            t0 = time.time()
            try:
                p.expect(b'MATCH', timeout=Tv); out = 'hit'
            except TIMEOUT:
                out = 'timeout'
            except EOF:
                out = 'eof'
            except Exception as ex:   # noqa
                out = 'exc:' + type(ex).__name__
            el = time.time() - t0
            signal.setitimer(signal.ITIMER_REAL, 0, 0)
            closer()
            sigs.add(('realtime', kind, Tv, out))
            if out != 'timeout' or el < Tv - 0.02 or el > Tv + 1.0:
                common.report(ctx, 'realtime/%s/T=%s' % (kind, Tv), 'real-time expect(timeout=%s) on %s with SIGALRM every 50 ms: %s after %.3f s' % (Tv, kind, out, el),
                              dict(kind=kind, timeout=Tv, outcome=out, elapsed=el))
    finally:
        signal.setitimer(signal.ITIMER_REAL, 0, 0)
        signal.signal(signal.SIGALRM, old)
    stats['realtime_runs'] = n
    stats['signals_delivered_while_waiting'] = len(hits)


def run(ctx):
    common.prove(ctx, ['C05'])
    if not ctx.quick():
        common.leanchecker(ctx, ['C05'])
    stats, sigs = {}, set()
    stage_virtual(ctx, stats, sigs)
    stage_wrappers(ctx, stats, sigs)
    stage_hangup(ctx, stats, sigs)
    stage_waitnoecho(ctx, stats, sigs)
    stage_realtime(ctx, stats, sigs)
    ctx.cov.update(stats)
    n = stats['virtual_scenarios'] + stats['waitnoecho_scenarios'] + stats['realtime_runs'] + 1 + stats.get('wrapper_runs', 0)
    return common.finish(
        ctx, 'virtual clock over the real transports: {pty select/poll, fd select/poll, socket, popen} x {expect, expect_exact, expect_list, expect_loop, '
             'read_nonblocking} x T in {-1, None, 0, 0.7, 2.0} x child behaviour {silence, trickle, burst just before / after the deadline, match, exit, '
             'already readable, trickle then match} (quick: corpus + 110 sampled combinations; thorough: all); hang-up without exit; waitnoecho; '
             'the same with a signal every 0.2371 s failing the waits with EINTR; the two EINTR-restarting wrappers of utils.py against Rt.selII on random timeouts / ready times / signal schedules; real-time runs with SIGALRM every 50 ms. Each virtual run is also replayed through the Lean clock skeleton (same outcome, same finish '
             'time, transport contract satisfied). distinct = (transport, entry, T, behaviour, outcome)',
        [dict(transport='pty-select', entry='expect', timeout=2.0, pattern='trickle')], n, len(sigs),
        assumptions=['the virtual clock replaces time.time/time.sleep in the pexpect modules and every blocking wait; non-blocking system calls cost one tick',
                     'PEP 475: CPython restarts select / poll itself after a handled signal, so on a real system the EINTR branches of utils.py run only for handlers that raise InterruptedError; under the virtual clock the system call fails with EINTR at scripted moments, which exercises them (Rt.selII, stage_wrappers and the +sig behaviours)',
                     'overhead allowed by the oracle: 0.25 virtual seconds (+ one 0.1 s sleep for waitnoecho)'])


def replay(ctx, path):
    d = json.load(open(path))['replay']
    print(json.dumps(d, indent=1)[:2000])
    if 'transport' in d and 'entry' in d:
        r = scenario(d['transport'], d['entry'], d['timeout'], d['pattern'])
        msg = oracle(d['transport'], d['entry'], d['timeout'], d['pattern'], r)
        print(r['outcome'], r['elapsed'], msg)
        return 1 if msg else 0
    return None      # no dedicated replay for this kind of case: check.py re-runs the check with the recorded seed
