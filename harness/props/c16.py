"""C16: REPLWrapper — proofs about the run_command model (Props/C16.lean) + the real REPLWrapper on a scripted REPL
(same event streams through the Lean model) + real bash / python REPLs (and a protocol-obeying fake REPL process),
blocking and awaited, with commands whose output is known by construction."""
import os, sys, json, copy, collections, asyncio, signal, multiprocessing, time as real_time
from lib import common
from drivers import expecter as X

common.repo_on_path()
import pexpect
from pexpect import replwrap, EOF, TIMEOUT

PROMPTS = [('>>', '..'), ('[PEXPECT_PROMPT>', '[PEXPECT_PROMPT+'), ('$ ', '> '), ('ab', 'b!')]


# ------------------------------------------------------------------------------------------- scripted REPL

class FakeRepl(X.Scripted):
    echo = False

    def __init__(self, script, clock):
        X.Scripted.__init__(self, script, 'u', clock)
        self.sent = []
        self.kills = []
        self.waits = []          # the timeout each wait for a prompt was given

    def send(self, s):
        self.sent.append(s)
        return len(s)

    def sendline(self, s=''):
        return self.send(s + '\n')

    def kill(self, sig):
        self.kills.append(sig)

    def expect_exact(self, pattern_list, timeout=-1, searchwindowsize=-1, async_=False, **kw):
        self.waits.append(timeout)
        return X.Scripted.expect_exact(self, pattern_list, timeout, searchwindowsize, async_, **kw)


def run_scripted(case):
    """case: prompt, cont, cmds: [{'lines': n_lines, 'segs': [[o, isCont, chunks]...], 'sync': seg|None}], init: seg"""
    clock = X.FakeTime()
    saved = X.pexpect_expect.time
    X.pexpect_expect.time = clock
    try:
        script = case_script(case)
        child = FakeRepl([list(e) for e in script], clock)
        out = dict(results=[])
        try:
            xi = case.get('xinit')
            w = replwrap.REPLWrapper(child, case['prompt'], None, continuation_prompt=case['cont'],
                                     extra_init_cmd=('\n'.join('init%d' % k for k in range(xi['lines'])) if xi else None))
            out['init'] = 'ok'
        except EOF:
            out['init'] = 'EOF'; return out
        except TIMEOUT:
            out['init'] = 'TIMEOUT'; return out
        except ValueError:
            out['init'] = 'ValueError'; return out          # extra_init_cmd met the continuation prompt after its last line
        for cmd in case['cmds']:
            seps = cmd.get('seps') or ['\n'] * (cmd['lines'] - 1)
            # an empty line inside a block is a line like any other: it is sent, and answered by a prompt
            names = ['' if k == cmd.get('empty_at') else 'line%d' % k for k in range(cmd['lines'])]
            if cmd.get('empty_at') is not None:
                seps = ['\n'] * (cmd['lines'] - 1)       # (a CR before an empty line and an LF after it would read as one CRLF)
            text = names[0] + ''.join(sep + names[k + 1] for k, sep in enumerate(seps))
            s0 = len(child.sent)
            k0 = len(child.kills)
            w0 = len(child.waits)
            try:
                v = w.run_command(text, timeout=cmd.get('timeout', 5))      # 5 | -1 (the spawn's own) | None (wait for ever) | 0.5
                out['results'].append(['value', v])
            except ValueError:
                out['results'].append(['ValueError', child.kills[k0:]])
            except EOF:
                out['results'].append(['EOF', child.before]); break
            except TIMEOUT:
                out['results'].append(['TIMEOUT', child.before]); break
            except Exception as e:      # noqa  (anything else is not part of run_command's contract)
                out['results'].append(['EXC:' + type(e).__name__, repr(e)[:120]]); break
            # every wait for a prompt inside this call is given the caller's timeout (the resync after an interrupt: the fixed 1 s)
            if out['results'][-1][0] in ('value', 'ValueError'):
                tw = cmd.get('timeout', 5)
                want_waits = [tw] * (len(child.waits) - w0 - (1 if out['results'][-1][0] == 'ValueError' else 0)) + ([1] if out['results'][-1][0] == 'ValueError' else [])
                if child.waits[w0:] != want_waits:
                    out['results'][-1] = list(out['results'][-1][:2]) + ['waited with timeouts %r, the caller gave %r' % (child.waits[w0:], tw)]
            # one sendline per line of the command, whatever line separator the caller used
            want_sent = [nm + '\n' for nm in names]
            if out['results'][-1][0] == 'value' and child.sent[s0:] != want_sent:
                out['results'][-1] = ['value', out['results'][-1][1], 'sent %r' % (child.sent[s0:],)]
        out['pending'] = child.before if out['results'] and out['results'][-1][0] in ('TIMEOUT',) else child.buffer
        out['sent'] = child.sent
        return out
    finally:
        X.pexpect_expect.time = saved


def chunked(text, cuts):
    out, prev = [], 0
    for c in sorted(set(min(max(c, 0), len(text)) for c in cuts)) + [len(text)]:
        out.append(text[prev:c]); prev = c
    return [c for c in out if c] or ([text] if text else [])


def seg_text(case, seg):
    return seg[0] + (case['cont'] if seg[1] else case['prompt'])


def case_script(case):
    evs = []
    segs = [case['init']]
    if case.get('xinit'):
        segs += case['xinit']['segs']
    for cmd in case['cmds']:
        segs += cmd['segs']
        if cmd.get('sync'):
            segs.append(cmd['sync'])
    for seg in segs:
        for ch in chunked(seg_text(case, seg), seg[2]):
            evs.append(['d', ch])
    if case.get('tail'):
        evs.append(case['tail'])
    return evs


def model_line(case):
    counts = ([case['xinit']['lines'] - 1] if case.get('xinit') else []) + [cmd['lines'] - 1 for cmd in case['cmds']]
    toks = ['RP', X.enc_text(case['prompt']), X.enc_text(case['cont']), ','.join(str(c_) for c_ in counts) or '-', '@']
    for ev in case_script(case):
        toks.append('d=' + X.enc_text(ev[1]) if ev[0] == 'd' else ev[0] if ev[0] != 'E' else 'E E E E E E E E E E E E')
    return ' '.join(toks)


def canon_real(case, out):
    parts = []
    if out['init'] != 'ok':
        return 'init=' + out['init']
    for r in out['results']:
        if r[0] == 'value':
            parts.append('value=' + X.enc_text(r[1]))
        elif r[0] == 'ValueError':
            parts.append('ValueError')
        else:
            parts.append('%s b=%s' % (r[0], X.enc_text(r[1])))
    return parts


def compare_model(case, out, mline):
    real = canon_real(case, out)
    mp = mline.split(' | ')
    if real == 'init=ValueError':
        return None if (case.get('xinit') and len(mp) > 2 and mp[1] == 'ValueError') else 'init: the constructor raised ValueError, model %r' % (mp[:2],)
    if isinstance(real, str):
        return None if mp[0] == real else 'init: model %r real %r' % (mp[0], real)
    if not mp[0].startswith('init=0') and not mp[0].startswith('init=1'):
        return 'init: model %r real ok' % mp[0]
    mres = mp[1:-1]
    if case.get('xinit'):
        mres = mres[1:]            # extra_init_cmd runs as a command of its own; its value is discarded
    for n, r in enumerate(real):
        if n >= len(mres) or mres[n] != r:
            return 'command %d: model %r real %r' % (n, mres[n] if n < len(mres) else None, r)
        if r.startswith(('EOF', 'TIMEOUT')):
            break
    return None


def expected_clean(case):
    """what the theorem promises for a protocol-obeying REPL"""
    exp = []
    for cmd in case['cmds']:
        if cmd.get('sync'):
            exp.append(['ValueError', [signal.SIGINT]])
        else:
            exp.append(['value', ''.join(s[0] for s in cmd['segs'])])
    return exp


def rand_case(rng, clean=True):
    prompt, cont = rng.choice(PROMPTS)
    alph = 'ab.>x\n[+!$ '

    def rand_out():
        n = rng.choice([0, 0, 1, 2, 5, 12, 40])
        return ''.join(rng.choice(alph) for _ in range(n))

    def mk(iscont):
        o = rand_out()
        t = o + (cont if iscont else prompt)
        return [o, iscont, [rng.randrange(0, len(t) + 1) for _ in range(rng.randrange(0, 5))]]
    cmds = []
    for _ in range(rng.randrange(1, 6)):
        lines = rng.choice([1, 1, 1, 2, 3])
        incomplete = rng.random() < 0.2
        segs = [mk(rng.random() < 0.8) for _ in range(lines - 1)] + [mk(incomplete)]
        cmds.append(dict(lines=lines, segs=segs, sync=(mk(False) if incomplete else None), timeout=rng.choice([5, 5, -1, None, 0.5]),
                         **({'empty_at': rng.randrange(1, lines - 1)} if lines >= 3 and rng.random() < 0.5 else {}),
                         seps=[rng.choice(['\n', '\n', '\r\n', '\r', '\x0c', '\u2028']) for _ in range(lines - 1)]))
    case = dict(prompt=prompt, cont=cont, init=mk(False), cmds=cmds)
    if rng.random() < 0.25:
        nl = rng.choice([1, 2, 3])          # extra_init_cmd of one to three lines, run before the first command
        case['xinit'] = dict(lines=nl, segs=[mk(rng.random() < 0.7) for _ in range(nl - 1)] + [mk(False)])
    if rng.random() < 0.15:
        case['tail'] = rng.choice([['E'], ['T']])
    return case


def all_segs(case):
    segs = [case['init']] + (case['xinit']['segs'] if case.get('xinit') else [])
    for cmd in case['cmds']:
        segs += cmd['segs'] + ([cmd['sync']] if cmd.get('sync') else [])
    return segs


# ---------------------------------------------------------------------------------------------- real REPLs

def bash_family(rng, k):
    n = rng.choice([1, 3, 200, 5000, 40000])
    word = 'w%dz' % k
    fam = [
        ('echo %s' % word, word + '\r\n'),
        ("printf '%s'" % word, word),
        ('true', ''),
        ('for i in 1 2 3; do\necho %s$i\ndone' % word, ''.join('%s%d\r\n' % (word, i) for i in (1, 2, 3))),
        ('seq 1 %d' % n, ''.join('%d\r\n' % i for i in range(1, n + 1))),
        ('if true; then\necho a%s\nfi' % word, 'a%s\r\n' % word),
        ('echo "%s' % word, ValueError),
        ('echo one; echo two', 'one\r\ntwo\r\n'),
        ('echo cr%s\r' % word, 'cr%s\r\n' % word),                      # str.splitlines(): a bare CR ends a line
        ('echo a%s\recho b%s' % (word, word), 'a%s\r\nb%s\r\n' % (word, word)),
        ('echo %s\necho second\nprintf third' % word, '%s\r\nsecond\r\nthird' % word),      # every line answers with output of its own
        ('cat <<EOF\none%s\n\ntwo\nEOF' % word, 'one%s\r\n\r\ntwo\r\n' % word),                # an empty line inside a block is part of the command
        # output that begins with the text of the command is output all the same
        ('%s() { echo %s; }\n%s' % (word, word, word), word + '\r\n'),
        # the lines of a command are data as much as code: blanks inside a quoted string or a here-document are part of it
        ("echo 'a%s\n   \nb'" % word, 'a%s\r\n   \r\nb\r\n' % word),
        ("  echo 'p%s\n  q'" % word, 'p%s\r\n  q\r\n' % word),
        ('  cat <<EOF\n  in%s\n  \nEOF' % word, '  in%s\r\n  \r\n' % word),
    ]
    return rng.choice(fam)


def py_family(rng, k):
    n = rng.choice([1, 50, 3000, 120000])
    word = 'w%dz' % k
    fam = [
        ("print('%s')" % word, word + '\r\n'),
        ("import sys; _ = sys.stdout.write('%s')" % word, word),
        ('x%d = 5' % k, ''),
        ('for i in range(3):\n    print("%s", i)\n' % word, ''.join('%s %d\r\n' % (word, i) for i in range(3))),
        ("print('x' * %d)" % n, 'x' * n + '\r\n'),
        ('for i in range(3):', ValueError),
        ('%d + 1' % k, '%d\r\n' % (k + 1)),
        ("print('cr%s')\r" % word, 'cr%s\r\n' % word),
        ("print('%s')\nprint('second')" % word, '%s\r\nsecond\r\n' % word),
        ('def f%d():\n    return 41\n\nprint(f%d() + 1)' % (k, k), '42\r\n'),                     # the empty line ends the block
        ("'%s'" % word, "'%s'\r\n" % word),                        # a literal evaluates to itself: the output repeats the command
        ('[1, 2, %d]' % k, '[1, 2, %d]\r\n' % k),
        ('%d' % (k + 7), '%d\r\n' % (k + 7)),
        ("print('''a%s\n   \nb''')" % word, 'a%s\r\n   \r\nb\r\n' % word),
    ]
    return rng.choice(fam)


FAKE_REPL = r'''
import sys, os, tty, signal, json
tty.setraw(0)
P, C = '[PEXPECT_PROMPT>', '[PEXPECT_PROMPT+'
pending = []
def intr(sig, frm):
    global pending
    pending = []
    os.write(1, ('\r\nKeyboardInterrupt\r\n' + P).encode())
signal.signal(signal.SIGINT, intr)
os.write(1, P.encode())
buf = b''
while True:
    try:
        c = os.read(0, 1)
    except InterruptedError:
        continue
    if not c: break
    if c != b'\n':
        buf += c; continue
    line = buf.decode(); buf = b''
    if line.startswith('begin'):
        pending.append(line); os.write(1, C.encode()); continue
    if pending and line != 'end':
        pending.append(line); os.write(1, C.encode()); continue
    if line == 'end':
        body = pending[1:]; pending = []
        os.write(1, (''.join(l + '\r\n' for l in body) + P).encode()); continue
    if line.startswith('out '):
        os.write(1, (line[4:] + P).encode()); continue
    if line.startswith('self'):
        os.write(1, (line + '\r\n' + P).encode()); continue
    if line.startswith('big '):
        n = int(line[4:]); s = ('0123456789abcdef' * (n // 16 + 1))[:n]
        for i in range(0, n, 3000): os.write(1, s[i:i+3000].encode())
        os.write(1, P.encode()); continue
    os.write(1, P.encode())
'''


def fake_family(rng, k):
    n = rng.choice([0, 10, 70000, 300000])
    word = 'w%dz' % k
    fam = [
        ('out %s' % word, word),
        ('out ', ''),
        ('big %d' % n, ('0123456789abcdef' * (n // 16 + 1))[:n]),
        ('begin\n%s\nsecond\nend' % word, '%s\r\nsecond\r\n' % word),
        ('begin\n%s' % word, ValueError),
        ('noop', ''),
        ('out %s\nout second\nnoop' % word, '%ssecond' % word),
        ('self%s' % word, 'self%s\r\n' % word),
        ('begin\n   \n  %s\nend' % word, '   \r\n  %s\r\n' % word),
        ('begin\n  %s\n  second\nend' % word, '  %s\r\n  second\r\n' % word),
    ]
    return rng.choice(fam)


TOY_REPL = r'''
import sys, signal
ps1, ps2 = 'toy> ', 'more> '
class Intr(Exception): pass
def on_int(sig, frm): raise Intr()
signal.signal(signal.SIGINT, on_int)
def out(s):
    sys.stdout.write(s); sys.stdout.flush()
while True:
    try:
        out(ps1)
        line = sys.stdin.readline()
        if not line: break
        line = line.rstrip('\n')
        while line.endswith('\\'):
            out(ps2)
            line = line[:-1] + sys.stdin.readline().rstrip('\n')
        if line.startswith('say '): out(line[4:] + '\n')
        elif line.startswith('raw '): out(line[4:])
        elif line.startswith('self'): out(line + '\n')
        elif line.startswith('rep '): out('0123456789abcdef' * int(line[4:]) + '\n')
        elif line.startswith('prompts '): _, ps1, ps2 = line.split(' ')
        elif line in ('', 'nothing'): pass
        else: out('?' + line + '\n')
    except Intr:
        out('\nInterrupted\n')
'''


def toy_family(rng, k):
    n = rng.choice([1, 40, 3000])
    word = 'w%dz' % k
    fam = [
        ('say %s' % word, word + '\r\n'),
        ('raw %s' % word, word),
        ('nothing', ''),
        ('say one%s \\\ntwo' % word, 'one%s two\r\n' % word),
        ('rep %d' % n, '0123456789abcdef' * n + '\r\n'),
        ('say open%s \\' % word, ValueError),
        ('say a%s\nraw b%s' % (word, word), 'a%s\r\nb%s' % (word, word)),
        ('self%s' % word, 'self%s\r\n' % word),
        ('say x%s\\\n   ' % word, 'x%s   \r\n' % word),
    ]
    return rng.choice(fam)


def toy_wrapper(variant, path):
    """an already running spawn handed to REPLWrapper: with the terminal's echo on (the spawn default) or off, its own prompts or changed ones"""
    echo, change = [(True, False), (True, True), (False, False), (False, True)][variant % 4]
    child = pexpect.spawn(sys.executable, ['-u', path], encoding='utf-8', timeout=30, echo=echo)
    if change:
        return replwrap.REPLWrapper(child, 'toy> ', 'prompts {0} {1}')
    return replwrap.REPLWrapper(child, 'toy> ', None, continuation_prompt='more> ')


def real_session(arg):
    kind, seed, ncmds, use_async, tmp = arg
    import random
    rng = random.Random(seed)
    common.repo_on_path()
    fam = dict(bash=bash_family, python=py_family, fake=fake_family, toy=toy_family)[kind]
    cmds = [fam(rng, k) for k in range(ncmds)]
    touts = [rng.choice([30, 30, -1, None]) for _ in cmds]
    res = []
    try:
        if kind == 'bash':
            w = replwrap.bash()
        elif kind == 'python':
            w = replwrap.python()
        elif kind == 'toy':
            path = os.path.join(tmp, 'toy_repl_%d.py' % seed)
            open(path, 'w').write(TOY_REPL)
            w = toy_wrapper(seed, path)
        else:
            path = os.path.join(tmp, 'fake_repl_%d.py' % seed)
            open(path, 'w').write(FAKE_REPL)
            w = replwrap.REPLWrapper('%s %s' % (sys.executable, path), '[PEXPECT_PROMPT>', None)
    except Exception as e:      # noqa
        return dict(kind=kind, seed=seed, error='start: %r' % (e,), cmds=[c for c, _ in cmds], res=[])

    async def arun():
        for (c, _), to in zip(cmds, touts):
            try:
                v = await w.run_command(c, timeout=to, async_=True)
                res.append(['value', v])
            except ValueError:
                res.append(['ValueError'])
            except Exception as e:      # noqa
                res.append(['EXC:' + type(e).__name__, repr(e)[:200]]); break
    if use_async:
        loop = asyncio.new_event_loop()
        try:
            loop.run_until_complete(arun())
        finally:
            loop.close()
    else:
        for (c, _), to in zip(cmds, touts):
            try:
                v = w.run_command(c, timeout=to)
                res.append(['value', v])
            except ValueError:
                res.append(['ValueError'])
            except Exception as e:      # noqa
                res.append(['EXC:' + type(e).__name__, repr(e)[:200]]); break
    try:
        w.child.close(force=True)
    except Exception:
        pass
    return dict(kind=kind, seed=seed, use_async=use_async, cmds=[c for c, _ in cmds], timeouts=touts,
                expected=[(['ValueError'] if e is ValueError else ['value', e]) for _, e in cmds], res=res)


def real_check(r):
    if r.get('error'):
        return 'could not start the %s REPL: %s' % (r['kind'], r['error'])
    for n, (cmd, exp) in enumerate(zip(r['cmds'], r['expected'])):
        got = r['res'][n] if n < len(r['res']) else ['missing']
        if got != exp:
            def short(x):
                return x if len(repr(x)) < 90 else [x[0], '%d chars: %r...%r' % (len(x[1]), x[1][:25], x[1][-25:])] if len(x) > 1 else x
            return '%s %s: command %d %r (timeout=%r) returned %r, its own output is %r (previous command: %r)' % (
                r['kind'], 'awaited' if r.get('use_async') else 'blocking', n, cmd[:40], (r.get('timeouts') or [None] * (n + 1))[n], short(got), short(exp), r['cmds'][n - 1][:40] if n else None)
    return None


# ------------------------------------------------------------------------------------------------- driver

def run(ctx):
    common.prove(ctx, ['C16'])
    if not ctx.quick():
        common.leanchecker(ctx, ['C16'])
    n = 2500 if ctx.quick() else 40000
    cases = [rand_case(ctx.rng) for _ in range(n)]
    lines = [model_line(c) for c in cases]
    # cleanliness of every segment, decided by the model's cleanB
    seg_q, seg_ix = [], []
    for ci, c in enumerate(cases):
        for s in all_segs(c):
            seg_q.append('RC %s %s %s %d' % (X.enc_text(c['prompt']), X.enc_text(c['cont']), X.enc_text(s[0]), 1 if s[1] else 0)); seg_ix.append(ci)
    try:
        mouts = common.run_model(lines + seg_q)
    except common.ModelUnavailable as e:
        ctx.broken.append('model driver unavailable: ' + str(e)[:300]); mouts = None
    clean = collections.defaultdict(lambda: True)
    if mouts:
        for ci, ans in zip(seg_ix, mouts[len(lines):]):
            if ans != 'clean':
                clean[ci] = False
    hist = collections.Counter()
    sigs = set()
    first_or = first_diff = None
    for ci, c in enumerate(cases):
        out = run_scripted(c)
        kinds = tuple(r[0] for r in out.get('results', []))
        hist.update(kinds)
        sigs.add((kinds, tuple(cmd['lines'] for cmd in c['cmds'])[:4], clean[ci], bool(c.get('tail'))))
        if mouts:
            d = compare_model(c, out, mouts[ci])
            if d and first_diff is None:
                first_diff = (c, d)
        if mouts and clean[ci] and not c.get('tail'):
            exp = expected_clean(c)
            if out.get('init') != 'ok' or out['results'] != exp or out.get('pending'):
                if first_or is None:
                    bad = next((k for k, (a, b) in enumerate(zip(out.get('results', []), exp)) if a != b), len(out.get('results', [])))
                    first_or = (c, 'protocol-obeying REPL: command %d returned %r, its own output is %r (pending afterwards %r)' % (
                        bad, (out.get('results') or [None] * (bad + 1))[bad] if bad < len(out.get('results', [])) else None, exp[bad] if bad < len(exp) else None, out.get('pending')))
    if first_or:
        common.report(ctx, 'repl/scripted/wrong-output', first_or[1], dict(kind='scripted', case=first_or[0]))
    elif first_diff:
        ctx.broken.append('correspondence run_command model vs REPLWrapper on %s: %s' % (json.dumps(first_diff[0])[:300], first_diff[1]))
    # real REPLs
    jobs = []
    nses = 2 if ctx.quick() else 12
    for k in range(nses):
        for kind in ('bash', 'python', 'fake', 'toy', 'toy'):
            for use_async in (False, True):
                jobs.append((kind, ctx.seed * 1000 + k * 7 + (1 if use_async else 0) + len(kind) + len(jobs), 8 if ctx.quick() else 14, use_async, ctx.tmp))
    pool = multiprocessing.Pool(12)
    try:
        routs = pool.map_async(real_session, jobs).get(timeout=420 if ctx.quick() else 1500)
    except multiprocessing.TimeoutError:
        # a command given timeout=None never came back: run the sessions one by one with a watchdog to name it
        pool.terminate()
        routs = []
        for j in jobs:
            one = multiprocessing.Pool(1)
            try:
                routs.append(one.apply_async(real_session, (j,)).get(timeout=120))
            except multiprocessing.TimeoutError:
                routs.append(dict(kind=j[0], seed=j[1], use_async=j[3], error='the session did not finish within 120 s (a command waits for ever)', cmds=[], res=[]))
            one.terminate()
    finally:
        pool.terminate()
    big = 0
    for r in routs:
        for x in r['res']:
            if x[0] == 'value':
                big = max(big, len(x[1]))
        msg = real_check(r)
        hist.update('real:' + x[0] for x in r['res'])
        if msg and not ctx.violations:
            # a real REPL on a loaded machine can miss its 30 s: what is reported must reproduce on its own, twice, with a pause in between
            again = real_check(real_session((r['kind'], r['seed'], len(r['cmds']), r.get('use_async', False), ctx.tmp)))
            if again and 'TIMEOUT' in msg:
                real_time.sleep(5)
                again = real_check(real_session((r['kind'], r['seed'], len(r['cmds']), r.get('use_async', False), ctx.tmp)))
            if again:
                common.report(ctx, 'repl/%s/wrong-output' % r['kind'], msg, dict(kind='real', job=[r['kind'], r['seed'], len(r['cmds']), r.get('use_async', False)]))
            else:
                ctx.notes.append('unreproduced real-REPL anomaly: ' + msg[:200])
    ctx.cov['result_histogram'] = dict(hist)
    ctx.cov['scripted_cases'] = len(cases)
    ctx.cov['clean_cases'] = sum(1 for ci in range(len(cases)) if clean[ci])
    ctx.cov['real_sessions'] = len(jobs)
    ctx.cov['largest_output'] = big
    samples = [dict(case=cases[0], real=run_scripted(cases[0]).get('results'))]
    return common.finish(
        ctx,
        'random command sequences (1-3 lines per command, incomplete commands in between, outputs of 0-40 characters over an alphabet that contains '
        'pieces of the prompts, every segment cut into reads at random offsets, 4 prompt pairs incl. overlapping ones, optional EOF / TIMEOUT tail) on the real '
        'REPLWrapper over a scripted spawn, the same event streams through the Lean model; segments are classified clean / dirty by the model and the '
        'theorem\'s conclusion is checked directly on the clean ones; then real bash, python and a protocol-obeying fake REPL process, blocking and awaited, '
        'with commands of known output (0 - 300 000 characters); distinct = (result kinds, lines per command, clean, tail)',
        samples, len(cases) + len(jobs), len(sigs),
        assumptions=['a REPL obeys the protocol when every answer is output ++ prompt with neither prompt string completed earlier (Seg.Clean); '
                     'a command that prints the prompt string itself is outside the theorem and only judged for model/code agreement',
                     'bash and python are the real programs; the expected output of each command is known by construction'])


def replay(ctx, path):
    d = json.load(open(path))
    r = d['replay']
    if r.get('kind') == 'real':
        j = r['job']
        out = real_session((j[0], j[1], j[2], j[3], ctx.tmp))
        msg = real_check(out)
        print(msg)
        return 1 if msg else 0
    out = run_scripted(r['case'])
    print(json.dumps(dict(real=out.get('results'), expected=expected_clean(r['case'])), indent=1))
    return 1 if out.get('results') != expected_clean(r['case']) else 0
