from props.session_family import run, replay
