"""C01-C04: proofs about the Expecter model + correspondence / direct oracles on the scripted transport."""
import itertools, json, os, copy, collections, time
from lib import common
from drivers import expecter as X

MODULES = {'C01': ['C01'], 'C02': ['C02'], 'C03': ['C03'], 'C04': ['C04']}

EXACT_POOL = [
    [['s', 'a']], [['s', 'ab']], [['s', 'ab'], ['s', 'a']], [['s', 'a'], ['s', 'ab']], [['s', 'ba'], ['s', 'ab']],
    [['s', 'b'], ['E']], [['T'], ['s', 'aa']], [['E'], ['s', 'bab'], ['T'], ['s', 'ab']], [['s', '']], [['s', 'abb'], ['s', 'bb'], ['s', 'b']],
    [['E']], [['T'], ['E']],
]
A, B_ = ['chr', 97], ['chr', 98]
RE_POOL = [
    [['re', 's', A]], [['re', 's', ['seq', A, B_]]], [['re', 's', ['seq', ['star', A], B_]]], [['re', 's', ['plus', A]]],
    [['re', 's', ['alt', A, ['seq', A, B_]]], ['re', 's', B_]], [['re', 's', ['seq', A, B_]], ['re', 's', ['alt', ['seq', A, B_], B_]]],
    [['re', 's', ['eol']]], [['re', 's', ['seq', A, ['eol']]], ['T']], [['E'], ['re', 's', ['eos']]], [['re', 's', ['look', B_]]],
    [['re', 's', ['seq', A, ['look', B_]]]], [['re', 's', ['seq', ['star', B_], ['eol']]]], [['re', 's', ['any']]],
    [['re', 's', ['seq', ['any'], ['any']]], ['E']], [['re', 's', ['cls', False, [[97, 98]]]]], [['re', 's', ['cls', True, [[97, 97]]]]],
    [['re', 's', ['seq', ['bol'], A]]], [['re', 's', ['empty']]], [['T'], ['re', 's', ['seq', B_, ['opt', A]]], ['E']],
]

CORPUS = [
    # round-8 change C04-8A: a poll that timed out is repeated after another call consumed text and left a remainder of the same length
    dict(mode='b', ops=[dict(k='x', W=None, pats=[['s', 'zz'], ['T']]), dict(k='x', W=None, pats=[['s', 'c']]), dict(k='x', W=None, pats=[['s', 'zz'], ['T']])],
         script=[['d', 'ab'], ['T'], ['d', 'czz'], ['T']]),
    dict(mode='u', ops=[dict(k='r', W=None, pats=[['re', 's', ['seq', ['chr', 122], ['chr', 122]]], ['T']]), dict(k='x', W=None, pats=[['s', 'c']]),
                        dict(k='r', W=None, pats=[['re', 's', ['seq', ['chr', 122], ['chr', 122]]], ['T']]), dict(k='r', W=None, pats=[['re', 's', ['seq', ['chr', 122], ['chr', 122]]], ['T']])],
         script=[['d', 'ab'], ['T'], ['d', 'czz'], ['T'], ['T']]),
    dict(mode='b', ops=[dict(k='x', W=3, pats=[['s', 'zz']]), dict(k='x', W=3, pats=[['s', 'b']]), dict(k='x', W=3, pats=[['s', 'zz']])],
         script=[['d', 'ab'], ['X'], ['d', 'zz'], ['T']]),
    # round-8 change C02-8A: another live object prepared the same pattern text with the other ignorecase setting
    dict(mode='b', twin=True, ops=[dict(k='r', W=None, pats=[['re', 's', ['chr', 97]]])], script=[['d', 'Aa']]),
    dict(mode='u', twin=True, ops=[dict(k='r', W=None, ic=True, pats=[['re', 'si', ['chr', 97]]]), dict(k='r', W=None, pats=[['re', 's', ['chr', 97]]])],
         script=[['d', 'xAa'], ['d', 'Aa']]),
    # defect #1 (fixed): zero-width match at the end of the window dropped pending text
    dict(mode='b', ops=[dict(k='r', W=None, pats=[['re', 's', ['eol']]])], script=[['d', 'abc']]),
    dict(mode='u', ops=[dict(k='x', W=None, pats=[['s', 'zz'], ['T']]), dict(k='x', W=None, pats=[['s', '']])], script=[['d', 'abc'], ['T']]),
    dict(mode='b', ops=[dict(k='r', W=2, pats=[['re', 's', ['seq', ['star', ['chr', 120]], ['eol']]]])], script=[['d', 'ab'], ['d', 'c']]),
    # defect #2 (fixed): buffer assignment must replace the pending text
    dict(mode='b', ops=[dict(k='x', W=None, pats=[['s', 'zz']]), dict(k='b', v=''), dict(k='x', W=None, pats=[['s', 'q'], ['T']])],
         script=[['d', 'hello'], ['T'], ['d', 'q']]),
    dict(mode='u', ops=[dict(k='x', W=2, pats=[['s', 'zz']]), dict(k='b', v='xy'), dict(k='r', W=None, pats=[['re', 's', ['chr', 121]]])],
         script=[['d', 'hello world'], ['T']]),
    # straddling occurrences / trimmed buffer left by a timed-out call / changing W
    dict(mode='b', ops=[dict(k='x', W=None, pats=[['s', 'abc']])], script=[['d', 'xa'], ['d', 'b'], ['d', 'cy']]),
    dict(mode='b', ops=[dict(k='x', W=2, pats=[['s', 'abc']]), dict(k='x', W=None, pats=[['s', 'abc']])], script=[['d', 'xab'], ['d', 'c'], ['T']]),
    dict(mode='b', ops=[dict(k='x', W=None, pats=[['s', 'zzzz']]), dict(k='r', W=3, pats=[['re', 's', ['seq', A, B_]]]), dict(k='x', W=None, pats=[['s', 'b']])],
         script=[['d', 'abababab'], ['T'], ['d', 'q'], ['T']]),
    dict(mode='b', ops=[dict(k='readline', W=None), dict(k='read', n=3, W=None), dict(k='read', n=-1, W=None), dict(k='readline', W=None)],
         script=[['d', 'one\r'], ['d', '\ntwo'], ['d', 'three\r\n'], ['E']]),
    dict(mode='b', ops=[dict(k='x', W=None, pats=[['s', 'a'], ['E']]), dict(k='x', W=None, pats=[['s', 'a'], ['E']]), dict(k='x', W=None, pats=[['s', 'a']])],
         script=[['d', 'xx'], ['E']]),
    dict(mode='b', ops=[dict(k='x', W=None, pats=[['s', 'b'], ['T']])], script=[['d', 'aa'], ['X'], ['d', 'b']]),
    dict(mode='b', ops=[dict(k='x', W=None, pats=[['s', 'b']]), dict(k='x', W=None, pats=[['s', 'a']])], script=[['X'], ['d', 'ab']]),
    # expect_list() on one list object that the caller edits between the calls (EOF appended, TIMEOUT inserted, EOF removed)
    dict(mode='b', ops=[dict(k='r', W=None, pats=[['re', 's', A]], list_api=True, compiled=True), dict(k='r', W=None, pats=[['re', 's', B_], ['E']], list_api=True, compiled=True)],
         script=[['d', 'xa'], ['d', 'q'], ['E']]),
    dict(mode='b', ops=[dict(k='r', W=None, pats=[['re', 's', A], ['E']], list_api=True, compiled=True), dict(k='r', W=None, pats=[['T'], ['re', 's', B_]], list_api=True, compiled=True),
                        dict(k='r', W=None, pats=[['re', 's', B_]], list_api=True, compiled=True)],
         script=[['d', 'a'], ['d', 'q'], ['T'], ['E']]),
]


def compositions(s, allow_empty):
    """all ways of splitting s into consecutive chunks (optionally one empty read inserted)"""
    n = len(s)
    outs = []
    for mask in range(1 << max(0, n - 1)):
        chunks, cur = [], ''
        for i, ch in enumerate(s):
            cur += ch
            if i == n - 1 or (mask >> i) & 1:
                chunks.append(cur); cur = ''
        outs.append(chunks)
        if allow_empty and chunks:
            for pos in (0, len(chunks) // 2):
                outs.append(chunks[:pos] + [''] + chunks[pos:])
    return outs or [[]]


def exhaustive(maxlen, ws, enders):
    cases = []
    for n in range(0, maxlen + 1):
        for tup in itertools.product('ab', repeat=n):
            s = ''.join(tup)
            for chunks in compositions(s, allow_empty=(n <= 2)):
                for ender in enders:
                    script = [['d', c] for c in chunks] + ender
                    for W in ws:
                        for pool, kind in ((EXACT_POOL, 'x'), (RE_POOL, 'r')):
                            for pats in pool:
                                second = dict(k='x', W=None, pats=[['s', 'b'], ['T'], ['E']]) if kind == 'r' else \
                                    dict(k='r', W=(2 if W is None else None), pats=[['re', 's', ['seq', A, ['opt', B_]]], ['E'], ['T']])
                                cases.append(dict(mode='b', ops=[dict(k=kind, W=W, pats=pats), second], script=script))
    return cases


ALPH_U = 'ab\r\nxé€'
ALPH_B = 'ab\r\nx\xe9\xff'


def rand_ast(rng, depth, alph):
    r = rng.random()
    if depth <= 0 or r < 0.35:
        c = rng.random()
        if c < 0.6:
            return ['chr', ord(rng.choice(alph))]
        if c < 0.72:
            return ['any']
        if c < 0.84:
            lo = ord(rng.choice(alph)); hi = ord(rng.choice(alph))
            return ['cls', rng.random() < 0.3, [[min(lo, hi), max(lo, hi)]]]
        return [rng.choice(['eol', 'eos', 'bol', 'empty'])]
    if r < 0.6:
        return ['seq', rand_ast(rng, depth - 1, alph), rand_ast(rng, depth - 1, alph)]
    if r < 0.72:
        return ['alt', rand_ast(rng, depth - 1, alph), rand_ast(rng, depth - 1, alph)]
    if r < 0.93:
        for _ in range(5):
            body = rand_ast(rng, depth - 1, alph)
            if not X.nullable(body):
                return [rng.choice(['star', 'plus', 'opt']), body]
        return ['opt', ['chr', ord(rng.choice(alph))]]
    return ['look', rand_ast(rng, depth - 1, alph)]


def sample(rng, a, alph):
    t = a[0]
    if t == 'chr':
        return chr(a[1])
    if t == 'any':
        return rng.choice(alph.replace('\n', 'a'))
    if t == 'cls':
        cands = [c for c in alph if any(lo <= ord(c) <= hi for lo, hi in a[2]) != a[1]]
        return rng.choice(cands) if cands else ''
    if t in ('bol', 'eol', 'eos', 'empty', 'look'):
        return ''
    if t == 'seq':
        return sample(rng, a[1], alph) + sample(rng, a[2], alph)
    if t == 'alt':
        return sample(rng, a[rng.choice([1, 2])], alph)
    if t == 'star':
        return ''.join(sample(rng, a[1], alph) for _ in range(rng.randrange(0, 3)))
    if t == 'plus':
        return ''.join(sample(rng, a[1], alph) for _ in range(rng.randrange(1, 3)))
    if t == 'opt':
        return sample(rng, a[1], alph) if rng.random() < 0.5 else ''
    return ''


def rand_case(rng, maxlen=40, maxops=6):
    mode = rng.choice('bu')
    alph = ALPH_U if mode == 'u' else ALPH_B
    ascii_alph = 'abx\r\n'
    nops = rng.randrange(1, maxops + 1)
    ops, plants = [], []
    for _ in range(nops):
        r = rng.random()
        if r < 0.06:
            ops.append(dict(k='b', v=''.join(rng.choice(alph) for _ in range(rng.randrange(0, 4)))))
            continue
        if r < 0.12:
            ops.append(dict(k='readline', W=rng.choice([None, None, 1, 2, 5])))
            plants.append('\r\n')
            continue
        if r < 0.18:
            ops.append(dict(k='read', n=rng.choice([-1, 1, 2, 3, 7]), W=rng.choice([None, None, 1, 4])))
            continue
        kind = 'x' if r < 0.6 else 'r'
        ic = (kind == 'r' and rng.random() < 0.15)
        npat = rng.choice([1, 1, 2, 2, 3, 4])
        pats = []
        lens = []
        for _ in range(npat):
            m = rng.random()
            if m < 0.1:
                pats.append(['E'])
            elif m < 0.2:
                pats.append(['T'])
            elif kind == 'x':
                if plants and rng.random() < 0.3:     # prefix / suffix / duplicate of an earlier one
                    base = rng.choice(plants)
                    s = rng.choice([base, base[:max(0, len(base) - 1)], base[1:], base + rng.choice(alph)])
                else:
                    s = ''.join(rng.choice(alph) for _ in range(rng.choice([0, 1, 1, 2, 2, 3, 4])))
                pats.append(['s', s]); plants.append(s); lens.append(len(s))
            else:
                a = rand_ast(rng, rng.choice([1, 2, 2, 3]), ascii_alph if ic else alph)
                flags = 's' + ('i' if ic else '')
                if rng.random() < 0.25:
                    flags = ''.join(f for f in 'ism' if rng.random() < 0.5)
                pats.append(['re', flags, a])
                s = sample(rng, a, alph); plants.append(s); lens.append(len(s))
        L = max(lens) if lens else 1
        W = rng.choice([None, None, None, 1, max(1, L - 1), max(1, L), L + 1, 2 * L + 1, 50])
        op = dict(k=kind, W=W, pats=pats, via=rng.choice(['arg', 'attr']), tmo=rng.choice(['default', 'default', 'none']))
        if kind == 'r':
            op['ic'] = ic and all(('i' in q[1]) for q in pats if q[0] == 're')
            if ic and not op['ic']:
                for q in pats:
                    if q[0] == 're' and 'i' not in q[1]:
                        q[1] += 'i'
                op['ic'] = True
            op['compiled'] = rng.random() < 0.3
            op['list_api'] = rng.random() < 0.3
        op['single'] = (len(pats) == 1 and rng.random() < 0.5)
        ops.append(op)
    # polling loops: an earlier call is made again later with the very same arguments (whatever the calls in between consumed)
    if rng.random() < 0.25:
        prior = [o for o in ops if o['k'] in ('x', 'r')]
        if prior:
            again = copy.deepcopy(rng.choice(prior))
            if ['T'] not in again['pats'] and rng.random() < 0.7:
                again['pats'].append(['T'])
            ops.append(again)
            if rng.random() < 0.5:
                ops.append(copy.deepcopy(again))
    # stream: random text with planted occurrences
    n = rng.randrange(0, maxlen + 1)
    text = ''
    while len(text) < n:
        if plants and rng.random() < 0.35:
            text += rng.choice(plants)
        else:
            text += rng.choice(alph)
    # cuts
    cuts = sorted(set(rng.randrange(0, len(text) + 1) for _ in range(rng.randrange(0, 8)))) if text else []
    chunks, prev = [], 0
    for c in cuts + [len(text)]:
        chunks.append(text[prev:c]); prev = c
    if rng.random() < 0.7:
        chunks = [c for c in chunks if c] or chunks[:1]
    script = []
    for c in chunks:
        script.append(['d', c])
        r = rng.random()
        if r < 0.12:
            script.append(['T'])
        elif r < 0.2:
            script.append(['X'])
    if rng.random() < 0.1:
        script.insert(0, ['X'])
    if rng.random() < 0.45:
        script.append(['E'])
    case = dict(mode=mode, ops=ops, script=script)
    if rng.random() < 0.15:
        case['maxread'] = rng.choice([1, 2, 3, 5])        # reads that come back exactly as long as maxread (or longer)
    if rng.random() < 0.3:
        case['twin'] = True          # another live object prepares the same pattern texts with the other ignorecase setting in between
    return case


def signature(case, res):
    sig = []
    for op, r in zip(case['ops'], res['recs']):
        if r['kind'] == 'set':
            sig.append('set'); continue
        zw = (r['kind'] == 'hit' and r.get('after') == '')
        nd = r.get('ndata', 0)
        sig.append((op['k'], 'W' if op.get('W') else '-', r['kind'].split(':')[0], min(nd, 3), zw, len(op.get('pats') or []) > 1))
    return tuple(sig)


def nontrivial(sig):
    return any(s != 'set' and (s[3] >= 2 or s[1] == 'W' or s[2] != 'hit' or s[4]) for s in sig)


def stage_real_classes(ctx):
    """C04 on the real spawn classes, in the states where Expecter.eof() / timeout() build their diagnostic message from
    str(spawn): the raised class is exactly TIMEOUT / EOF, a listed marker gives its index with before = pending text and
    after = the class, EOF is reported again (at once) by every later call, and str(spawn) itself never fails"""
    import os, re, socket, time as rt
    import pexpect
    from pexpect import pxssh, fdpexpect, popen_spawn, socket_pexpect, EOF, TIMEOUT
    n = 0

    def judge(label, p, conv):
        problems = []

        def call(what, fn, want_exc=None, want_ret=None, limit=3.0):
            t0 = rt.time()

            class Stuck(BaseException):
                pass

            def on_alarm(sig, frm):
                raise Stuck()
            import signal as _sg
            old = _sg.signal(_sg.SIGALRM, on_alarm)
            _sg.setitimer(_sg.ITIMER_REAL, limit + 4.0)       # a call that blocks for good is a finding, not a reason for the check to hang
            try:
                r = fn(); got = ('ret', r)
            except Stuck:
                got = ('exc', Stuck)
                problems.append('%s: still blocked after %.0f s' % (what, limit + 4.0))
            except BaseException as e:      # noqa
                got = ('exc', type(e))
                try:
                    str(e)
                except Exception as e2:   # noqa
                    problems.append('%s: str(exception) raised %s' % (what, type(e2).__name__))
            finally:
                _sg.setitimer(_sg.ITIMER_REAL, 0)
                _sg.signal(_sg.SIGALRM, old)
            if want_exc is not None and got != ('exc', want_exc):
                problems.append('%s: %s, expected %s to be raised' % (what, got, want_exc.__name__))
            if want_ret is not None and got != ('ret', want_ret):
                problems.append('%s: %s, expected index %r' % (what, got, want_ret))
            if rt.time() - t0 > limit:
                problems.append('%s took %.1f s' % (what, rt.time() - t0))
        for name in ('before-eof', 'after-eof'):
            try:
                str(p); repr(p)
            except Exception as e:    # noqa
                problems.append('str(spawn) raised %s (%s)' % (type(e).__name__, name))
            if name == 'before-eof':
                call('expect timeout', lambda: p.expect(conv('zz'), timeout=0.05), want_exc=TIMEOUT)
                call('expect_exact timeout', lambda: p.expect_exact([conv('zz'), conv('y')], timeout=0), want_exc=TIMEOUT)
                call('timeout listed', lambda: p.expect([conv('zz'), TIMEOUT], timeout=0.05), want_ret=1)
                if p.after is not TIMEOUT:
                    problems.append('after a TIMEOUT index, after is %r' % (p.after,))
                # the time has already run out when the call starts (a negative timeout other than the -1 sentinel, e.g. deadline - now computed late):
                # TIMEOUT at once, never an error from the system call underneath
                call('expect, time already run out', lambda: p.expect(conv('zz'), timeout=-0.25), want_exc=TIMEOUT, limit=1.0)
                call('expect_exact, time already run out, TIMEOUT listed', lambda: p.expect_exact([conv('zz'), TIMEOUT], timeout=-3), want_ret=1, limit=1.0)
                call('expect_list, time already run out', lambda: p.expect_list([re.compile(conv('zz'))], timeout=-0.001), want_exc=TIMEOUT, limit=1.0)
                yield_eof = True
                p._verif_end()
            else:
                call('expect eof', lambda: p.expect(conv('zz'), timeout=2), want_exc=EOF)
                call('expect eof again', lambda: p.expect_exact(conv('zz'), timeout=2), want_exc=EOF, limit=1.0)
                call('eof listed', lambda: p.expect([conv('zz'), TIMEOUT, EOF], timeout=2), want_ret=2, limit=1.0)
                if p.after is not EOF or p.before not in (conv(''),):
                    problems.append('after an EOF index: after %r before %r' % (p.after, p.before))
                call('read at eof', lambda: p.read(), want_ret=conv(''), limit=1.0)
                call('readline at eof', lambda: p.readline(), want_ret=conv(''), limit=1.0)
        return problems
    for enc in (None, 'utf-8'):
        conv = (lambda t: t) if enc else (lambda t: t.encode())
        objs = []
        p = pexpect.spawn('cat', encoding=enc, timeout=2, echo=False); p._verif_end = p.sendeof; objs.append(('pty', p, lambda p=p: p.close(force=True)))
        s = pxssh.pxssh(encoding=enc, timeout=2); pexpect.spawn._spawn(s, 'cat'); s.setecho(False); s._verif_end = s.sendeof; objs.append(('pxssh', s, lambda s=s: s.close(force=True)))
        r, w = os.pipe(); f = fdpexpect.fdspawn(r, encoding=enc, timeout=2); f._verif_end = (lambda w=w: os.close(w)); objs.append(('fdspawn', f, lambda f=f: f.close()))
        r2, w2 = os.pipe(); f2 = fdpexpect.fdspawn(r2, encoding=enc, timeout=2, use_poll=True); f2._verif_end = (lambda w2=w2: os.close(w2)); objs.append(('fdspawn-poll', f2, lambda f2=f2: f2.close()))
        p2 = pexpect.spawn('cat', encoding=enc, timeout=2, echo=False, use_poll=True); p2._verif_end = p2.sendeof; objs.append(('pty-poll', p2, lambda p2=p2: p2.close(force=True)))
        a, b = socket.socketpair(); k = socket_pexpect.SocketSpawn(a, encoding=enc, timeout=2); k._verif_end = b.close; objs.append(('SocketSpawn', k, lambda k=k: k.close()))
        q = popen_spawn.PopenSpawn(['cat'], encoding=enc, timeout=2); q._verif_end = q.sendeof; objs.append(('PopenSpawn', q, lambda q=q: (q.proc.stdout.close(), q.proc.wait())))
        for label, obj, fin in objs:
            try:
                problems = judge(label, obj, conv)
            finally:
                try:
                    fin()
                except Exception:
                    pass
            try:
                str(obj)
            except Exception as e:  # noqa
                problems.append('str(spawn) after close raised %s' % type(e).__name__)
            n += 1
            if problems:
                common.report(ctx, 'classes/%s/%s' % (label, 'unicode' if enc else 'bytes'), '%s (%s mode): %s' % (label, 'unicode' if enc else 'bytes', '; '.join(problems[:4])),
                              dict(stage='stage_real_classes', cls=label, encoding=enc, problems=problems))
    # the stream ends inside a multi-byte character (text mode, strict errors): the outcome is still EOF - exactly that class - with the
    # complete text in before, and EOF again afterwards
    for kind in ('fdspawn', 'SocketSpawn', 'PopenSpawn'):
        try:
            if kind == 'fdspawn':
                r_, w_ = os.pipe(); os.write(w_, b'abc\xe2\x82'); os.close(w_)
                q_ = fdpexpect.fdspawn(r_, encoding='utf-8', timeout=2); fin_ = q_.close
            elif kind == 'SocketSpawn':
                a_, b_ = socket.socketpair(); b_.sendall(b'abc\xe2\x82'); b_.close()
                q_ = socket_pexpect.SocketSpawn(a_, encoding='utf-8', timeout=2); fin_ = q_.close
            else:
                q_ = popen_spawn.PopenSpawn(['printf', 'abc\\342\\202'], encoding='utf-8', timeout=2); fin_ = (lambda q_=q_: (q_.proc.stdout.close(), q_.proc.wait()))
            outs = []
            for _ in range(2):
                try:
                    q_.expect('zz', timeout=2); outs.append('matched')
                except BaseException as e:     # noqa
                    outs.append(type(e).__name__)
            bf = q_.before
            n += 1
            if outs != ['EOF', 'EOF'] or bf not in ('abc', ''):
                common.report(ctx, 'classes/%s/eof-inside-character' % kind, '%s (utf-8, strict): the stream b"abc\\xe2\\x82" ends inside a character; expect() twice gave %r with before %r '
                              '(expected EOF, EOF)' % (kind, outs, bf), dict(stage='stage_real_classes', cls=kind))
            try:
                fin_()
            except Exception:
                pass
        except Exception as e:      # noqa
            ctx.notes.append('eof-inside-character %s: %r' % (kind, e))
    # a pty child ended by a signal that has no name (real-time range): the EOF message is built from str(spawn) all the same
    try:
        z_ = pexpect.spawn('/bin/sh', ['-c', 'kill -35 $$'], timeout=3)
        outs = []
        for _ in range(2):
            try:
                z_.expect('zz', timeout=3); outs.append('matched')
            except BaseException as e:     # noqa
                outs.append(type(e).__name__)
        try:
            str(z_); sx = 'ok'
        except Exception as e:       # noqa
            sx = type(e).__name__
        z_.close(force=True)
        n += 1
        if outs != ['EOF', 'EOF'] or sx != 'ok':
            common.report(ctx, 'classes/pty/unnamed-signal', 'pty child ended by signal 35: expect() twice gave %r, str(spawn): %s (expected EOF, EOF, ok)' % (outs, sx),
                          dict(stage='stage_real_classes', cls='pty'))
    except Exception as e:      # noqa
        ctx.notes.append('unnamed-signal stage: %r' % (e,))
    # an object that was never started: str() must still work (pxssh before login)
    try:
        str(pxssh.pxssh()); str(pexpect.spawn(None))
    except Exception as e:  # noqa
        common.report(ctx, 'classes/unstarted/str', 'str() of a spawn object without a child raised %s' % type(e).__name__, dict(stage='stage_real_classes'))
    ctx.cov['real_class_states'] = n


MAXREAD_CORPUS = [
    dict(mode='b', maxread=3, ops=[dict(k='r', W=None, pats=[['re', 's', X.lit('MARK')], ['E']])], script=[['d', 'abc'], ['E']]),
    dict(mode='u', maxread=2, ops=[dict(k='x', W=None, pats=[['s', 'zz']])], script=[['d', 'ab'], ['d', 'cd'], ['E']]),
    dict(mode='b', maxread=1, ops=[dict(k='r', W=None, pats=[['re', 's', X.lit('q')], ['T']])], script=[['d', 'a'], ['d', 'b'], ['T']]),
]
RAW_LISTS = [
    [r'(\w+)=', r'(\d)\1'], [r'(\$|#) ', 'E', r'(["\'])\w+\1'], [r'(a)(b)\2', r'(x)\1'], [r'(?P<q>[ab])c(?P=q)', r'c'],
    [r'(?<=id: )\d\d', r'zz'], [r'(?<!x)ab', r'(b)\1'], [r'(a|b)\1+', r'(?:ab)+', 'T'], [r'\bab\b', r'(.)\1\1'],
]
RAW_STREAMS = ['.. 77 .. x=1', 'say "hello" now\n$ ', 'abb xx abb', 'acb aca bcb', 'user id: 42\r\n', 'xab ab bb', 'aab bbb abab', ' ab aaa ab']


def stage_raw_regexes(ctx, prop):
    """regex lists outside the modelled grammar (numbered and named groups, back-references, look-behind, word boundaries), every stream cut at
    random places: the real search against naive re-search of all pending text with the caller's own compiled patterns"""
    rng = ctx.rng
    n = 0
    for _ in range(400 if ctx.quick() else 6000):
        lst = rng.choice(RAW_LISTS)
        text = rng.choice(RAW_STREAMS) + rng.choice(['', ' ' + rng.choice(RAW_STREAMS)])
        cuts = sorted(rng.randrange(0, len(text) + 1) for _ in range(rng.choice([0, 1, 2, 4])))
        chunks, prev = [], 0
        for c_ in cuts + [len(text)]:
            if c_ > prev:
                chunks.append(text[prev:c_]); prev = c_
        pats = [['E'] if q == 'E' else ['T'] if q == 'T' else ['re', 's', ['raw', q]] for q in lst]
        case = dict(mode=rng.choice('bu'), ops=[dict(k='r', W=rng.choice([None, None, 40]), pats=pats)], script=[['d', ch] for ch in chunks] + [['T']])
        res = X.evaluate(case)
        n += 1
        msg = res['oracle'][prop]
        if msg:
            common.report(ctx, classify(prop, case, res) + '/raw', msg + ' (patterns %r)' % (lst,), dict(case=case, real=res['real'], naive=res['naive'],
                          how='harness/drivers/expecter.py evaluate(case)'))
            break
    ctx.cov['raw_regex_cases'] = n


def run(ctx):
    prop = ctx.prop
    common.prove(ctx, MODULES[prop])
    if not ctx.quick():
        common.leanchecker(ctx, MODULES[prop])
    cases = list(map(copy.deepcopy, CORPUS)) + list(map(copy.deepcopy, MAXREAD_CORPUS))
    ncorpus = len(cases)
    if ctx.quick():
        ex = exhaustive(3, [None, 1, 2], [[], [['E']]])
        nrand = 6000
    else:
        ex = exhaustive(5, [None, 1, 2, 3, 7], [[], [['E']], [['T'], ['d', 'ab']]])
        nrand = 60000
    cases += ex
    for _ in range(nrand):
        cases.append(rand_case(ctx.rng))
    ctx.cov['exhaustive'] = False
    ctx.cov['exhaustive_part'] = dict(cases=len(ex), alphabet='ab', max_stream=3 if ctx.quick() else 5,
                                      note='all streams x all chunkings (+ one empty read for short streams) x W x pattern pools x 2 calls')
    # model
    t0 = time.time()
    try:
        mouts = common.run_model([X.model_line(c) for c in cases])
    except common.ModelUnavailable as e:
        mouts = [None] * len(cases)
        ctx.broken.append('model driver unavailable: ' + str(e)[:300])
    ctx.cov['model_s'] = round(time.time() - t0, 1)
    sigs = collections.Counter()
    kinds = collections.Counter()
    samples = []
    first_oracle_fail = None
    first_corr_fail = None
    model_naive_fail = None
    for n, (c, mo) in enumerate(zip(cases, mouts)):
        res = X.evaluate(c, mo)
        sg = signature(c, res)
        sigs[sg] += 1
        for s in sg:
            if s != 'set':
                kinds[s[2]] += 1
        if n < ncorpus or len(samples) < 6 and n % 997 == 0:
            samples.append(dict(case=c, real=res['real']))
        msg = res['oracle'][prop]
        if msg and first_oracle_fail is None:
            first_oracle_fail = (c, msg)
        if mo is not None and res.get('model_diff') and first_corr_fail is None:
            first_corr_fail = (c, res)
        if mo is not None and res.get('model_vs_naive') and model_naive_fail is None:
            model_naive_fail = (c, res)
        if mo == 'bad-op' and first_corr_fail is None:
            first_corr_fail = (c, res)
    if first_oracle_fail:
        c, msg = first_oracle_fail
        small = X.shrink(c, lambda cc: X.evaluate(cc)['oracle'][prop] is not None)
        r2 = X.evaluate(small)
        common.report(ctx, classify(prop, small, r2), r2['oracle'][prop] or msg,
                      dict(case=small, real=r2['real'], naive=r2['naive'], how='harness/drivers/expecter.py evaluate(case)'))
    elif first_corr_fail:
        c, res = first_corr_fail
        ctx.broken.append('correspondence Expecter model vs pexpect.expect on %s: model %r real %r' % (
            json.dumps(c)[:400], res.get('model'), res['real']))
    if model_naive_fail and not first_oracle_fail and not first_corr_fail:
        c, res = model_naive_fail
        ctx.broken.append('Lean model disagrees with the naive oracle on %s' % json.dumps(c)[:300])
    if prop in ('C02', 'C03') and not first_oracle_fail:
        stage_raw_regexes(ctx, prop)
    if prop == 'C04':
        stage_real_classes(ctx)
    distinct = sum(1 for s in sigs if nontrivial(s))
    ctx.cov['outcome_histogram'] = dict(kinds)
    ctx.cov['corpus_cases'] = ncorpus
    ctx.cov['random_cases'] = nrand
    return common.finish(
        ctx,
        'corpus, then every history in the small scope, then structured random histories (planted occurrences, cuts '
        'placed relative to them, W chosen relative to pattern length); a case is distinct by its per-call signature '
        '(entry point, window on/off, outcome, reads consumed (capped at 3), zero-width, several patterns) and '
        'non-trivial when some call needed >= 2 reads, used a window, did not end in a plain hit, or matched zero-width',
        samples, len(cases), distinct,
        assumptions=['regex matching is delegated to CPython re; the Lean regex engine is only used to run the model on the same cases',
                     'the transport is scripted (SpawnBase subclass): the real transports are covered by C05-C07'])


def classify(prop, case, res):
    kinds = '+'.join(sorted(set(op['k'] for op in case['ops'])))
    outs = '+'.join(r.split(' ')[0] for r in res['real'])
    w = 'W' if any(op.get('W') for op in case['ops']) else 'noW'
    return 'expecter/%s/%s/%s' % (kinds, w, outs)


def replay(ctx, path):
    d = json.load(open(path))
    case = d['replay']['case']
    res = X.evaluate(case)
    print(json.dumps(dict(real=res['real'], naive=res['naive'], oracle=res['oracle']), indent=1))
    return 1 if res['oracle'].get(ctx.prop) else 0
