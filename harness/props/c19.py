"""C19 screen operations: theorems over the Screen model, model vs pexpect.screen vs a straightforward reference grid."""
import json, itertools, collections
from lib import common
from drivers import screen_drv as D

CORPUS = [
    (3, 4, [['pu', 97], ['g']]),                                     # defect: get() returned None
    (3, 4, [['fi', 120], ['ch', 3, 2], ['ed']]),                     # defect: erase_down on the last row
    (3, 4, [['fi', 120], ['ch', 1, 3], ['eu']]),                     # defect: erase_up on the first row
    (4, 3, [['fi', 120], ['sr', 0, 0], ['ch', 4, 1], ['LF'], ['LF'], ['pu', 97]]),   # defect: scroll region end 0
    (4, 3, [['pa', 1, 1, 97], ['pa', 2, 1, 98], ['pa', 3, 1, 99], ['sr', 3, 1], ['su'], ['sd'], ['sr', 1, 3], ['sd'], ['su']]),
    (2, 5, [['pu', 97], ['cf', 1], ['pu', 98], ['ch', 1, 1], ['in', 99], ['ia', 9, 9, 100], ['gr', 0, 0, 9, 9]]),
]


def run(ctx):
    common.prove(ctx, ['C19'])
    if not ctx.quick():
        common.leanchecker(ctx, ['C19'])
    rng = ctx.rng
    cases = [(r, c, ops) for (r, c, ops) in CORPUS]
    ncorpus = len(cases)
    # exhaustive: all sequences of <= 2 (quick) ops with all argument classes on tiny screens, after a fixed prefix that makes cells distinct
    sizes = [(1, 1), (2, 2), (3, 4)] if ctx.quick() else [(1, 1), (2, 2), (3, 4), (4, 5)]
    depth = 2 if ctx.quick() else 2
    nex = 0
    for (r, c) in sizes:
        prefix = [['pa', i, j, 97 + ((i * c + j) % 20)] for i in range(1, r + 1) for j in range(1, c + 1)] + [['ch', (r + 1) // 2, (c + 1) // 2]]
        small = D.all_ops_small(r, c)
        if (r, c) == (3, 4) and ctx.quick():
            small = small[::2]
        if (r, c) == (4, 5):
            small = small[::3]
        for seq in itertools.product(small, repeat=depth):
            cases.append((r, c, prefix + [list(o) for o in seq] + [['gr', 1, 1, r, c]]))
            nex += 1
        for o in small:
            cases.append((r, c, prefix + [list(o)]))
            nex += 1
    nrand = 6000 if ctx.quick() else 100000
    chars = 'abcdeé€ '
    for _ in range(nrand):
        r, c = rng.choice([(1, 1), (1, 3), (2, 2), (3, 4), (4, 5), (24, 80)] if rng.random() < 0.9 else [(5, 1), (2, 7)])
        n = rng.randrange(1, 31)
        # one case in five: cells that hold characters some string methods treat as line breaks (NEL, FF, CR, FS, VT, LS) - a cell is a cell
        cases.append((r, c, [D.rand_op(rng, r, c, chars if rng.random() < 0.8 else 'ab\x85\x0c\r\x1c\x0b\u2028 \u00e9') for _ in range(n)]))
    try:
        mouts = common.run_model([D.model_line(r, c, ops) for (r, c, ops) in cases])
    except common.ModelUnavailable as e:
        ctx.broken.append('model driver unavailable: ' + str(e)[:300])
        mouts = [None] * len(cases)
    opcount = collections.Counter()
    sigs = set()
    oracle_fail = corr_fail = None
    for n, ((r, c, ops), mo) in enumerate(zip(cases, mouts)):
        real = D.real_line(r, c, ops, alias_pick=n)
        ref = D.ref_line(r, c, ops)
        for o in ops[-3:]:
            opcount[o[0].rstrip('B')] += 1
        sigs.add((r, c, tuple(o[0] for o in ops[-3:])))
        if real != ref and oracle_fail is None:
            oracle_fail = (r, c, ops, real, ref, n)
        if mo is not None and mo != real and corr_fail is None:
            corr_fail = (r, c, ops, real, mo)
    if oracle_fail:
        r, c, ops, real, ref, pick = oracle_fail
        pick = pick % 4 if pick % 4 == 1 else pick % 2          # which method aliases are used, and whether a second screen is kept busy (see screen_drv.run_real)
        if D.real_line(r, c, ops, alias_pick=pick) == D.ref_line(r, c, ops):
            pick = oracle_fail[5]
        ops = shrink(r, c, ops, pick)
        real, ref = D.real_line(r, c, ops, alias_pick=pick), D.ref_line(r, c, ops)
        common.report(ctx, 'screen/%s' % ops[-1][0] if not real.startswith('EXC') else 'screen/raises/%s' % ops[-1][0],
                      'screen %dx%d after %s: real %s / reference grid %s' % (r, c, json.dumps(ops), first_diff(real, ref), ''),
                      dict(rows=r, cols=c, ops=ops, alias_pick=pick, real=real, reference=ref, how='harness/drivers/screen_drv.py real_line(rows, cols, ops, alias_pick) / ref_line; alias_pick % 4 == 1: a second screen of the same size is written to between the operations'))
    elif corr_fail:
        r, c, ops, real, mo = corr_fail
        ctx.broken.append('correspondence Screen model vs pexpect.screen on %dx%d %s: %s' % (r, c, json.dumps(ops)[:300], first_diff(real, mo)))
    stage_rejected(ctx)
    ctx.cov['exhaustive_part'] = dict(cases=nex, sizes=sizes, depth=depth, note='every op x argument classes {below, edge, above} after a cell-distinguishing prefix')
    ctx.cov['op_histogram'] = dict(opcount)
    return common.finish(
        ctx, 'corpus; all op sequences of length <= 2 over every op x argument class on tiny screens; random sequences <= 30 ops on 1x1..24x80 '
             'with text and bytes characters; compared: grid, cursor, saved cursor, scroll region, get/get_abs/get_region results, dump/str/pretty. '
             'distinct = (size, last three op names)', [dict(rows=r, cols=c, ops=ops) for (r, c, ops) in cases[:2] + cases[-2:]],
        len(cases), len(sigs),
        assumptions=['characters are single code points; put_abs("") (IndexError on an empty string) is outside the input domain',
                     'rows, cols >= 1'])


def stage_rejected(ctx):
    """an operation that refuses its argument (bytes on a screen built with encoding=None; an undecodable byte under a strict codec) raises
    and changes nothing: the grid, the cursor, the saved cursor and the scroll region are what they were"""
    from pexpect import screen as SCR
    rng = ctx.rng
    n = 0
    for it in range(60 if ctx.quick() else 1500):
        r, c = rng.choice([(2, 3), (3, 4), (4, 5), (1, 4)])
        kw, bad = rng.choice([(dict(encoding=None), b'x'), (dict(encoding='utf-8', encoding_errors='strict'), b'\xff'),
                              (dict(encoding='ascii', encoding_errors='strict'), b'\xe9')])
        s = SCR.screen(r, c, **kw)
        for i in range(1, r + 1):
            for j in range(1, c + 1):
                s.put_abs(i, j, chr(97 + ((i * c + j) % 20)))
        for _ in range(rng.randrange(0, 5)):
            o = D.rand_op(rng, r, c, 'xyz', allow_bytes=False)
            getattr(s, D.OPS[o[0]][0])(*[chr(a) if (o[0] in D.CHAR_LAST and k == len(o) - 2) else a for k, a in enumerate(o[1:])])
        snap = ([list(row) for row in s.w], s.cur_r, s.cur_c, s.cur_saved_r, s.cur_saved_c, s.scroll_row_start, s.scroll_row_end)
        name = rng.choice(['put_abs', 'put', 'insert_abs', 'insert', 'fill', 'fill_region'])
        R = lambda: D.rand_coord(rng, r)
        C = lambda: D.rand_coord(rng, c)
        args = {'put_abs': [R(), C(), bad], 'put': [bad], 'insert_abs': [R(), C(), bad], 'insert': [bad], 'fill': [bad], 'fill_region': [R(), C(), R(), C(), bad]}[name]
        try:
            getattr(s, name)(*args)
            outcome = 'accepted'
        except (TypeError, UnicodeDecodeError) as e:
            outcome = type(e).__name__
        n += 1
        after = ([list(row) for row in s.w], s.cur_r, s.cur_c, s.cur_saved_r, s.cur_saved_c, s.scroll_row_start, s.scroll_row_end)
        if outcome != 'accepted' and after != snap:
            common.report(ctx, 'screen/rejected/%s' % name,
                          'screen %dx%d (%s): %s(%s) raised %s and still changed the screen: %r -> %r' % (
                              r, c, kw, name, ', '.join(repr(a) for a in args), outcome, [''.join(x) for x in snap[0]], [''.join(x) for x in after[0]]),
                          dict(rows=r, cols=c, screen_kw=repr(kw), op=name, args=[repr(a) for a in args]))
            break
    ctx.cov['rejected_operations'] = n


def first_diff(a, b):
    pa, pb = a.split(' '), b.split(' ')
    for x, y in zip(pa, pb):
        if x != y:
            return '%s vs %s' % (x[:120], y[:120])
    return '%s vs %s' % (a[:100], b[:100])


def shrink(r, c, ops, pick=0):
    cur = list(ops)
    changed = True
    while changed:
        changed = False
        for i in range(len(cur)):
            cand = cur[:i] + cur[i + 1:]
            if cand and D.real_line(r, c, cand, alias_pick=pick) != D.ref_line(r, c, cand):
                cur = cand; changed = True
                break
    return cur


def replay(ctx, path):
    d = json.load(open(path))['replay']
    real, ref = D.real_line(d['rows'], d['cols'], d['ops'], alias_pick=d.get('alias_pick', 0)), D.ref_line(d['rows'], d['cols'], d['ops'])
    print(real); print(ref)
    return 0 if real == ref else 1
