from props.lifecycle import run, replay
