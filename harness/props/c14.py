"""C14: asyncio parity — proofs about the PatternWaiter model (Props/C14.lean) + the real asyncio path on pipes and
ptys under a virtual-time event loop, compared call by call with an all-blocking twin fed the same arrival schedule,
and replayed through the Lean model of mixed histories."""
import os, sys, json, copy, asyncio, selectors, collections, errno, re, gc, warnings
from lib import common
from drivers import vclock as V
from drivers import transports as T
from drivers import expecter as X

common.repo_on_path()
import pexpect
from pexpect import EOF, TIMEOUT, fdpexpect
import pexpect._async_w_await as AW
import pexpect._async as AS_

KNOWN_T0 = 'async/timeout=0/readable-data-not-examined'
KNOWN_EOF = 'async/eof-after-done/pending-wiped'


# ------------------------------------------------------------------------------------ virtual-time event loop

class Cancelled(Exception):
    pass


class VSelector(object):
    """selector whose waiting happens on the virtual clock (arrivals = peer actions at absolute virtual times)"""

    def __init__(self, clk):
        self.clk = clk
        self._sel = selectors.DefaultSelector()

    def select(self, timeout=None):
        clk = self.clk
        clk.now += clk.tick
        clk.due()
        ev = self._sel.select(0)
        if ev or (timeout is not None and timeout <= 0):
            return ev
        end = None if timeout is None else clk.now + timeout
        while True:
            if clk.arrivals and (end is None or clk.arrivals[0][0] <= end):
                clk.now = max(clk.now, clk.arrivals[0][0])
                clk.due()
                ev = self._sel.select(0)
                if ev:
                    return ev
                continue
            if end is None:
                raise V.WouldBlockForever()
            clk.now = end
            return []

    def __getattr__(self, k):
        return getattr(self._sel, k)


class VLoop(asyncio.SelectorEventLoop):
    def __init__(self, clk):
        self.clk = clk
        super(VLoop, self).__init__(VSelector(clk))

    def time(self):
        return self.clk.now


BasePW = AW.PatternWaiter


class RecWaiter(BasePW):
    """the real PatternWaiter; what the loop delivers is recorded"""
    log = None

    def data_received(self, data):
        RecWaiter.log.append(['d', data.decode('latin-1'), bool(self.fut.done())])
        return BasePW.data_received(self, data)

    def eof_received(self):
        RecWaiter.log.append(['E', None, bool(self.fut.done())])
        return BasePW.eof_received(self)

    def connection_lost(self, exc):
        if isinstance(exc, OSError) and exc.errno == errno.EIO:
            RecWaiter.log.append(['L', None, bool(self.fut.done())])
            # the base class forwards to eof_received: do not record that twice
            try:
                self.expecter.spawn.flag_eof = True
                index = self.expecter.eof()
            except EOF as e:
                self.error(e)
            else:
                self.found(index)
            return
        return BasePW.connection_lost(self, exc)


# --------------------------------------------------------------------------------------------------- scenario
# case = {'kind': 'fd'|'pty', 'arrivals': [[dt, 'w', text] | [dt, 'c']], 'ops': [op...]}
# op = {'mode': 'a'|'s', 'k': 'x'|'r', 'pats': [...], 'T': float|None, 'gap': float}   gap = idle time before the call


def make_peer(kind, clk, encoding=None):
    if kind == 'pty':
        ctl = T.PtyCtl([], encoding=encoding) if encoding else T.PtyCtl([])
        p = ctl.p
        p.timeout = 30

        def write(b):
            ctl.script = [('W', b)]; ctl.act1()

        def finish():
            ctl.script = [('E',)]; ctl.act1()
        return p, write, finish, ctl, [ctl.close]
    if kind == 'fdsock':
        # a descriptor whose reads can fail with an error that is not the end of the stream: a connection reset by the peer
        import socket as _socket
        a_, b_ = _socket.socketpair()
        p = fdpexpect.fdspawn(a_.fileno(), timeout=30, encoding=encoding)

        def write(b):
            b_.sendall(b)

        def finish():
            try:
                os.write(a_.fileno(), b'unread')      # the peer closes with data it never read: the reader's next read fails with ECONNRESET
            except OSError:
                pass
            b_.close()

        def cleanup():
            for s_ in (a_, b_):
                try:
                    s_.close()
                except OSError:
                    pass
        return p, write, finish, None, [cleanup]
    peer = T.FdPeer([], 'fd')
    p = fdpexpect.fdspawn(peer.rfd, timeout=30, encoding=encoding)

    def write(b):
        peer.script = [('W', b)]; peer.act1()

    def finish():
        peer.script = [('C',)]; peer.act1()

    def cleanup():
        peer.cleanup()
        try:
            os.close(peer.rfd)
        except OSError:
            pass
    return p, write, finish, None, [cleanup]


def pats_real(op, encoding=None):
    out = []
    for q in op['pats']:
        if q[0] == 'E':
            out.append(EOF)
        elif q[0] == 'T':
            out.append(TIMEOUT)
        elif op['k'] == 'x':
            out.append(q[1] if encoding else q[1].encode('latin-1'))
        else:
            out.append(re.compile(X.render(q[2], 'u') if encoding else X.render(q[2], 'b').encode('ascii'), X.flag_bits(q[1])))
    return out


def _t(v):
    return v.decode('latin-1') if isinstance(v, bytes) else v


def observe(p, kind_ret):
    b = p.before
    rec = dict(before=None if isinstance(b, type) or b is None else _t(b))
    a = p.after
    rec['after'] = 'EOF' if a is EOF else 'TIMEOUT' if a is TIMEOUT else (_t(a) if isinstance(a, (bytes, str)) else repr(a))
    m = p.match
    if m is EOF or m is TIMEOUT or m is None:
        rec['match'] = 'EOF' if m is EOF else 'TIMEOUT' if m is TIMEOUT else None
    elif isinstance(m, (bytes, str)):
        rec['match'] = _t(m)
    else:
        rec['match'] = _t(m.group(0))
    try:
        rec['buffer'] = _t(p.buffer)
    except Exception:
        rec['buffer'] = None
    rec['match_index'] = p.match_index
    return rec


def run_object(case, all_sync):
    """run the history on a fresh object; returns per-op records + the event log"""
    clk = V.VClock()
    encoding = case.get('encoding')
    p, write, finish, ctl, cleanup = make_peer(case['kind'], clk, encoding)
    if case.get('objW') is not None:
        p.searchwindowsize = case['objW'] or None
    if case.get('maxread'):
        p.maxread = case['maxread']          # small reads: a blocking call leaves most of a burst in the kernel for whoever reads next
    t = 0.0
    sched = []
    for a in case['arrivals']:
        if a[1] == 'w':
            sched.append((a[0], (lambda b=(bytes.fromhex(a[2][4:]) if a[2].startswith('hex:') else a[2].encode('latin-1')): write(b))))
        else:
            sched.append((a[0], finish))
    clk.schedule(sched)
    log = []
    RecWaiter.log = log
    saved_pw = AW.PatternWaiter
    AW.PatternWaiter = RecWaiter
    recs = []
    orig_rn = p.read_nonblocking

    def rn(size=1, timeout=-1):
        try:
            d = orig_rn(size, timeout)
        except EOF:
            log.append(['E', None, False]); raise
        except TIMEOUT:
            raise
        log.append(['d', _t(d), False])
        return d
    p.read_nonblocking = rn
    logged = []
    wrong_type = []

    class LogRec(object):
        def write(self, s_):
            if (encoding is not None) != isinstance(s_, str):
                wrong_type.append(type(s_).__name__)       # the log gets the string type the API uses
            logged.append(_t(s_))

        def flush(self):
            pass
    p.logfile_read = LogRec()
    loop = VLoop(clk)
    asyncio.set_event_loop(loop)
    loop_errors = []
    # what the loop would print (an exception inside a protocol callback, a fatal transport error) is collected instead: a read error of the
    # transport is part of some scenarios, anything else is judged
    loop.set_exception_handler(lambda l_, cx: loop_errors.append('%s: %r' % (cx.get('message'), cx.get('exception'))) if not isinstance(cx.get('exception'), OSError) else None)

    async def main():
        for op in case['ops']:
            g = op.get('gap', 0)
            if g:
                if all_sync:
                    clk.sleep(g)
                else:
                    await asyncio.sleep(g)
            n0 = len(log)
            rec = dict(t0=clk.now, n0=n0)
            pats = pats_real(op, encoding)
            # a search window given with the call (0 = None) overrides the object's own; absent: the object's
            wkw = {'searchwindowsize': (op['W'] or None)} if 'W' in op else {}
            try:
                if op['mode'] == 'c' and not all_sync:
                    # the caller gives up on its own (outer wait_for): the awaited call is cancelled, not timed out
                    inner = p.expect_exact(pats, timeout=op['T'] + 5, async_=True, **wkw) if op['k'] == 'x' else p.expect_list(pats, timeout=op['T'] + 5, async_=True, **wkw)
                    try:
                        i = await asyncio.wait_for(inner, op['T'])
                    except asyncio.TimeoutError:
                        raise Cancelled()
                elif op['mode'] == 'a' and not all_sync:
                    if op['k'] == 'x':
                        i = await p.expect_exact(pats, timeout=op['T'], async_=True, **wkw)
                    else:
                        i = await p.expect_list(pats, timeout=op['T'], async_=True, **wkw)
                else:
                    if op['k'] == 'x':
                        i = p.expect_exact(pats, timeout=op['T'], **wkw)
                    else:
                        i = p.expect_list(pats, timeout=op['T'], **wkw)
                rec['out'] = 'idx %d' % i
            except EOF:
                rec['out'] = 'EOF'
            except TIMEOUT:
                rec['out'] = 'TIMEOUT'
            except Cancelled:
                rec['out'] = 'CANCELLED'
            except V.WouldBlockForever:
                rec['out'] = 'BLOCKED'
            except Exception as e:      # noqa
                rec['out'] = 'EXC:%s' % type(e).__name__
                rec['exc'] = repr(e)[:200]
            rec['t1'] = clk.now
            rec.update(observe(p, rec['out']))
            rec['nev'] = len(log) - n0
            if rec['out'] == 'TIMEOUT' or rec['after'] == 'TIMEOUT' or rec['out'] == 'CANCELLED':
                log.append(['T', None, False])       # where the call's wait ended without a result (its own timer, or the caller gave up)
            rec['n1'] = len(log)
            recs.append(rec)
            if rec['out'].startswith(('EXC', 'BLOCKED')):
                break
            if rec['out'] == 'EOF' or rec['after'] == 'EOF':
                break           # the property speaks about calls up to and including the first EOF
        tr = p.async_pw_transport
        return dict(paused=(None if not tr else (not tr[1].is_reading())), closed=bool(getattr(p, 'closed', False)))

    try:
        with V.Install(clk, ('fd' if case['kind'] == 'fdsock' else case['kind']), p, ctl=ctl):
            try:
                fin = loop.run_until_complete(main())
            except V.WouldBlockForever:
                fin = dict(paused=None, closed=None, blocked=True)
    finally:
        AW.PatternWaiter = saved_pw
        try:
            tr = p.async_pw_transport
            if tr:
                tr[1].close()
            loop.run_until_complete(asyncio.sleep(0)) if not loop.is_closed() else None
        except Exception:
            pass
        try:
            loop.close()
        except Exception:
            pass
        asyncio.set_event_loop(None)
        for c in cleanup:
            try:
                c()
            except Exception:
                pass
    return dict(recs=recs, log=log, fin=fin, logged=logged, wrong_type=wrong_type, loop_errors=loop_errors)


FIELDS = ('out', 'before', 'after', 'match', 'buffer', 'match_index')


def near_tie(case, rec, op):
    """an arrival within 2 ms of this call's deadline: which side of the deadline it falls on is decided by the few ticks the
    two implementations spend differently, not by the property"""
    if op['T'] is None:
        return False
    deadline = rec['t0'] + op['T']
    t = 1000.0
    for a in case['arrivals']:
        t += a[0]
        if abs(t - deadline) < 2e-3:
            return True
    return False


def conservation(case, a):
    """C01 on a mixed history: what the calls handed back, in call order, followed by what is pending, is a prefix of what the child wrote -
    nothing lost, doubled or out of order, whoever (a blocking read, the event loop) took it from the descriptor"""
    stream = ''.join(x[2] for x in case['arrivals'] if x[1] == 'w')
    handed = ''
    recs = a['recs']
    for r in recs:
        if r['out'].startswith('idx'):
            if r['after'] == 'TIMEOUT':
                continue
            handed += (r['before'] or '') + ('' if r['after'] == 'EOF' else (r['after'] or ''))
        elif r['out'] == 'EOF':
            handed += r['before'] or ''
    if not recs or any(r['out'].startswith(('EXC', 'BLOCKED', 'CANCELLED')) for r in recs):
        return None
    last = recs[-1]
    if last['out'] == 'EOF' or last['after'] == 'EOF':
        pending = ''
    elif last['out'] == 'TIMEOUT' or last['after'] == 'TIMEOUT':
        pending = last['before'] or ''        # (the search buffer may have been trimmed; `before` is all of the pending text)
    else:
        pending = last['buffer'] or ''
    total = handed + pending
    if not stream.startswith(total):
        return (len(recs) - 1, 'conservation (handed back + pending)', total[:60], stream[:60])
    return None


def compare_twin(case, a, b):
    """first difference between the object under test and the all-blocking twin, up to and including the first EOF"""
    pend_prev = ''
    cancelled = False
    for n, (ra, rb) in enumerate(zip(a['recs'], b['recs'])):
        if near_tie(case, ra, case['ops'][n]) or near_tie(case, rb, case['ops'][n]):
            return None
        if ra['out'] == 'CANCELLED':
            # the caller cancelled the awaited call (the twin's call timed out at the same moment): nothing was consumed; what
            # arrives afterwards, with no call outstanding, must reach the next call
            if rb['out'] not in ('TIMEOUT',) and not rb['out'].startswith('idx'):
                return None
            if rb['out'] != 'TIMEOUT':
                return None            # the twin matched within the time: the histories are no longer comparable
            pend_prev = rb['before'] or ''
            cancelled = True
            continue
        # text that arrived during a call that timed out is pending *and* searchable: the search buffer cannot be empty then
        if (ra['out'] == 'TIMEOUT' or ra['after'] == 'TIMEOUT') and ra['before'] is not None and ra['buffer'] is not None:
            if len(ra['before']) > len(pend_prev) and ra['buffer'] == '':
                return n, 'pending-vs-buffer', ra['before'], ra['buffer']
            pend_prev = ra['before']
        elif ra['buffer'] is not None:
            pend_prev = ra['buffer']
        # done_window_data_conserved / Inv: after a TIMEOUT `before` is all pending text and the search buffer is a suffix of it
        if (ra['out'] == 'TIMEOUT' or ra['after'] == 'TIMEOUT') and ra['before'] is not None and ra['buffer'] is not None \
                and not ra['before'].endswith(ra['buffer']):
            return n, 'pending-vs-buffer', ra['before'], ra['buffer']
        for f in FIELDS:
            if ra.get(f) != rb.get(f):
                if f == 'buffer' and cancelled and ra.get(f) is not None and rb.get(f) is not None and \
                        (ra[f].startswith(rb[f]) or rb[f].startswith(ra[f])):
                    # after a cancelled call the transport goes on reading: the awaited object may already hold output that the
                    # twin has not yet read from the kernel.  Same stream position; only the amount read ahead differs.
                    continue
                return n, f, ra.get(f), rb.get(f)
        if ra['out'] == 'EOF' or ra['after'] == 'EOF':
            return None
        op = case['ops'][n]
        if op['T'] is not None and op['mode'] == 'a':
            if ra['t1'] - ra['t0'] > op['T'] + 0.01:
                return n, 'duration', ra['t1'] - ra['t0'], op['T']
    if len(a['recs']) != len(b['recs']):
        return len(a['recs']), 'ncalls', len(a['recs']), len(b['recs'])
    return None


# --------------------------------------------------------------------------------------------------- model

def model_line(case, run):
    toks = ['AY']
    prev_end = 0
    for op, rec in zip(case['ops'], run['recs']):
        # loop events between two calls were delivered with nobody waiting (possible after a call its caller gave up)
        for ev in run['log'][prev_end:rec.get('n0', prev_end)]:
            if ev[0] == 'd':
                toks.append('i')
        prev_end = rec.get('n1', prev_end)
        pats = '+'.join(X.pat_tok(q, op) for q in op['pats']) if op['pats'] else '_'
        toks.append('%s%s:%d:%s' % ({'a': 'a', 'c': 'c', 's': ''}[op['mode']], op['k'], (op['W'] if 'W' in op else (case.get('objW') or 0)), pats))
    toks.append('@')
    eof_seen = False
    for ev in run['log']:
        if ev[0] == 'd':
            toks.append('d=' + X.enc_text(ev[1]))
        elif ev[0] in ('E', 'L'):
            toks.append(ev[0]); eof_seen = True
        else:
            toks.append('T')
    if eof_seen:
        toks += ['E'] * 3
    return ' '.join(toks)


def canon_real(case, run):
    outs = []
    for op, r in zip(case['ops'], run['recs']):
        o = r['out']
        if o.startswith('idx'):
            i = int(o.split()[1])
            if r['after'] == 'EOF':
                outs.append('eofidx %d b=%s p=%s' % (i, X.enc_text(r['before']), X.enc_text(r['buffer'])))
            elif r['after'] == 'TIMEOUT':
                outs.append('timeoutidx %d b=%s p=%s' % (i, X.enc_text(r['before']), X.enc_text(r['before'])))
            else:
                outs.append('hit %d b=%s a=%s p=%s s=%s' % (i, X.enc_text(r['before']), X.enc_text(r['after']), X.enc_text(r['buffer']), X.enc_text(r['buffer'])))
        elif o == 'EOF':
            outs.append('EOF b=%s p=%s' % (X.enc_text(r['before']), X.enc_text(r['buffer'])))
        elif o == 'TIMEOUT':
            outs.append('TIMEOUT b=%s p=%s' % (X.enc_text(r['before']), X.enc_text(r['before'])))
        else:
            outs.append(o)
    return outs


def compare_model(case, run, mline):
    parts = mline.split(' | ')
    real = canon_real(case, run)
    mo = [x for x in parts[:-1] if x not in ('idle', 'idle-none')]
    for n, (m, r) in enumerate(zip(mo, real)):
        if m != r:
            return 'call %d: model %r real %r' % (n, m, r)
        if r.startswith(('EOF', 'eofidx')):
            break
    return None


# ----------------------------------------------------------------------------------------------- generators

def L(s):
    return ['s', s]


def rand_case(rng, allow_t0=False):
    kind = rng.choice(['fd', 'fd', 'fd', 'pty'])
    alph = 'abxy\n'
    nops = rng.randrange(1, 5)
    ops, plants = [], []
    windows = rng.random() < 0.35            # search windows: the object's own and / or one given with the call
    objW = rng.choice([None, None, 0, 2, 4]) if windows else None
    for _ in range(nops):
        k = rng.choice('xxr')
        pats = []
        for _ in range(rng.choice([1, 1, 2, 3])):
            m = rng.random()
            if m < 0.12:
                pats.append(['E'])
            elif m < 0.25:
                pats.append(['T'])
            elif k == 'x':
                s = ''.join(rng.choice(alph) for _ in range(rng.choice([1, 1, 2, 3])))
                pats.append(['s', s]); plants.append(s)
            else:
                s = ''.join(rng.choice(alph) for _ in range(rng.choice([1, 2, 2])))
                pats.append(['re', 's', X.lit(s)]); plants.append(s)
        if rng.random() < 0.08:
            # a pattern that matches the empty string matches at once, also when nothing is pending
            pats.append(['s', ''] if k == 'x' else ['re', 's', ['star', ['chr', 120]]])
        tmo = rng.choice([0.337, 0.571, 0.571, 1.043, 2.069])
        if allow_t0 and rng.random() < 0.15:
            tmo = 0
        ops.append(dict(mode=rng.choice('aaas'), k=k, pats=pats, T=tmo, gap=rng.choice([0, 0, 0, 0.2, 0.5, 1.0])))
        if ops[-1]['mode'] == 's' and rng.random() < 0.3:
            ops[-1]['T'] = None          # a blocking call without a time limit (also on a descriptor an awaited call has left non-blocking)
        if windows and rng.random() < 0.6:
            ops[-1]['W'] = rng.choice([0, 1, 2, 3, 5])
    # arrivals on a 0.1 grid (timeouts are off-grid): text with planted occurrences
    narr = rng.randrange(0, 7)
    arrivals = []
    for _ in range(narr):
        dt = rng.choice([0.0, 0.1, 0.1, 0.2, 0.3, 0.5, 0.8])
        text = ''
        for _ in range(rng.randrange(1, 4)):
            text += rng.choice(plants) if plants and rng.random() < 0.5 else rng.choice(alph)
        arrivals.append([dt, 'w', text])
    if rng.random() < 0.5:
        arrivals.append([rng.choice([0.0, 0.1, 0.3, 0.6]), 'c'])
    # (only without search windows: under a window the outcome depends on how the stream is cut into reads - by design, C03 - and the event
    # loop does not cut it the way a blocking read of maxread bytes does)
    extra = {'maxread': rng.choice([1, 2, 3, 7])} if (not windows and rng.random() < 0.3) else {}
    return dict(kind=kind, arrivals=arrivals, ops=ops, **({'objW': objW} if objW is not None else {}), **extra)


def unicode_case(rng):
    """utf-8 mode: a text with multi-byte characters written in pieces cut at arbitrary byte offsets (also inside a character)"""
    text = ''.join(rng.choice(['caf\u00e9', ' x ', '\u20ac5', 'na\u00efve', '!', '\u65e5\u672c', ' y']) for _ in range(rng.randrange(2, 6))) + '!'
    raw = text.encode('utf-8')
    cuts = sorted(set(rng.randrange(1, len(raw)) for _ in range(rng.randrange(1, 5))))
    arrivals, prev = [], 0
    for c in cuts + [len(raw)]:
        arrivals.append([rng.choice([0.1, 0.1, 0.2]), 'w', 'hex:' + raw[prev:c].hex()]); prev = c
    if rng.random() < 0.5:
        arrivals.append([0.1, 'c'])
    ops = [dict(mode=rng.choice('aas'), k='x', pats=[['s', rng.choice(['\u00e9', '!', '\u20ac', 'x', '\u672c'])]] + ([['E']] if rng.random() < 0.4 else []),
                T=rng.choice([0.55, 1.05]), gap=rng.choice([0, 0.2])) for _ in range(rng.randrange(1, 4))]
    return dict(kind=rng.choice(['fd', 'fd', 'pty']), encoding='utf-8', arrivals=arrivals, ops=ops)


def tail_case(rng):
    """the last output and the end of the stream are there together before anyone reads (a child that printed and exited): a blocking call
    that matches early in it leaves text pending after the read that met the end - the calls that follow still find it, awaited or not"""
    words = ['foo', 'bar', 'baz', 'qux', 'ab', 'xy']
    picked = [rng.choice(words) for _ in range(rng.randrange(3, 6))]
    text = ' '.join(picked)
    arrivals = [[0.1, 'w', text], [rng.choice([0.0, 0.0, 0.1]), 'c']]
    ops = [dict(mode='s', k=rng.choice('xr'), pats=[], T=1.043, gap=0.5)]
    for w in picked[1:rng.randrange(2, len(picked) + 1)]:
        ops.append(dict(mode=rng.choice('aaas'), k=rng.choice('xr'), pats=[], T=rng.choice([0.571, 1.043]), gap=rng.choice([0, 0, 0.2])))
    for op, w in zip(ops, picked):
        op['pats'] = [['s', w] if op['k'] == 'x' else ['re', 's', X.lit(w)]] + ([['E']] if rng.random() < 0.6 else [])
    return dict(kind=rng.choice(['pty', 'pty', 'fd']), arrivals=arrivals, ops=ops, **({'maxread': rng.choice([1, 2, 5])} if rng.random() < 0.4 else {}))


def cancel_case(rng):
    """an awaited call that the caller cancels (outer wait_for), output that arrives while no call is outstanding, then more calls;
    exact search / small patterns so that the search buffer is trimmed while text is pending"""
    alph = 'abxy\n'
    arrivals = []
    for _ in range(rng.randrange(2, 6)):
        arrivals.append([rng.choice([0.1, 0.2, 0.3, 0.5]), 'w', ''.join(rng.choice(alph) for _ in range(rng.randrange(3, 12)))])
    # what the abandoned call was looking for may well turn up later, while nobody (or the next call) is waiting
    abandoned = 'QQ' if rng.random() < 0.4 else ''.join(rng.choice(alph) for _ in range(rng.choice([1, 2, 2])))
    ops = [dict(mode='c', k='x', pats=[['s', abandoned]], T=rng.choice([0.337, 0.571]), gap=0)]
    for _ in range(rng.randrange(1, 3)):
        s_ = ''.join(rng.choice(alph) for _ in range(rng.choice([1, 2])))
        ops.append(dict(mode=rng.choice('aas'), k=rng.choice('xr'), pats=[['s', s_]] if True else [], T=rng.choice([0.571, 1.043]), gap=rng.choice([0.2, 0.5, 1.0])))
    for op in ops:
        if op['k'] == 'r':
            op['pats'] = [['re', 's', X.lit(op['pats'][0][1])]]
    return dict(kind='fd', arrivals=arrivals, ops=ops)


CORPUS = [
    # a read fault that is not the end of the stream (connection reset): both forms report the error, neither calls it EOF
    dict(kind='fdsock', arrivals=[[0.1, 'w', 'hello'], [0.2, 'c']],
         ops=[dict(mode='a', k='x', pats=[['s', 'zz'], ['E']], T=1.043, gap=0)]),
    dict(kind='fdsock', arrivals=[[0.1, 'w', 'hello'], [0.2, 'c']],
         ops=[dict(mode='a', k='x', pats=[['s', 'hello']], T=1.043, gap=0), dict(mode='a', k='x', pats=[['s', 'zz'], ['E'], ['T']], T=0.571, gap=0.5)]),
    # patterns that match the empty string while nothing is pending: the call returns at once and reads nothing
    dict(kind='fd', arrivals=[[0.2, 'w', 'xxab']],
         ops=[dict(mode='a', k='r', pats=[['re', 's', ['star', ['chr', 120]]]], T=1.043, gap=0), dict(mode='a', k='x', pats=[['s', 'ab']], T=1.043, gap=0)]),
    dict(kind='fd', arrivals=[[0.2, 'w', 'xxab']],
         ops=[dict(mode='a', k='x', pats=[['s', '']], T=1.043, gap=0), dict(mode='a', k='x', pats=[['s', 'ab']], T=1.043, gap=0)]),
    # a search window given with the call, different from the object's own, on the awaited path
    dict(kind='fd', arrivals=[[0.1, 'w', 'MARKxxxxxxxxxxxxxxxxxxxx'], [0.2, 'c']],
         ops=[dict(mode='a', k='x', pats=[['s', 'MARK'], ['E']], T=1.043, gap=0.3, W=5)]),
    dict(kind='fd', objW=3, arrivals=[[0.1, 'w', 'MARKxxxxxxxxxxxxxxxxxxxx'], [0.2, 'c']],
         ops=[dict(mode='a', k='x', pats=[['s', 'MARK'], ['E']], T=1.043, gap=0.3, W=0)]),
    # the caller abandons an awaited call; the text it was waiting for arrives afterwards and belongs to the next call
    dict(kind='fd', arrivals=[[0.1, 'w', 'one '], [0.5, 'w', 'two PROMPT three']],
         ops=[dict(mode='c', k='x', pats=[['s', 'PROMPT']], T=0.337, gap=0), dict(mode='a', k='x', pats=[['s', 'three']], T=1.043, gap=0.5)]),
    dict(kind='fd', arrivals=[[0.1, 'w', 'one '], [0.5, 'w', 'two PROMPT three']],
         ops=[dict(mode='c', k='x', pats=[['s', 'PROMPT']], T=0.337, gap=0), dict(mode='s', k='x', pats=[['s', 'PROMPT']], T=1.043, gap=0.5)]),
    # data before the first await, between awaits, several chunks in one turn, EOF with the last data
    dict(kind='fd', arrivals=[[0.0, 'w', 'hello '], [0.0, 'w', 'world'], [0.3, 'w', ' again'], [0.0, 'c']],
         ops=[dict(mode='a', k='x', pats=[L('world')], T=1.05, gap=0.2), dict(mode='a', k='x', pats=[L('again'), ['E']], T=1.05, gap=0.5),
              dict(mode='a', k='x', pats=[['E']], T=1.05, gap=0)]),
    dict(kind='fd', arrivals=[[0.1, 'w', 'ab'], [0.5, 'w', 'cd'], [0.5, 'w', 'ef']],
         ops=[dict(mode='a', k='x', pats=[L('b')], T=0.55, gap=0), dict(mode='s', k='x', pats=[L('d')], T=1.05, gap=0),
              dict(mode='a', k='r', pats=[['re', 's', X.lit('zz')], ['T']], T=0.35, gap=0), dict(mode='a', k='x', pats=[L('f')], T=1.05, gap=0)]),
    dict(kind='pty', arrivals=[[0.1, 'w', 'xay'], [0.2, 'c']],
         ops=[dict(mode='a', k='x', pats=[L('a')], T=1.05, gap=0), dict(mode='a', k='x', pats=[L('q'), ['E']], T=1.05, gap=0)]),
    dict(kind='pty', arrivals=[[0.1, 'w', 'xay'], [0.2, 'c']],
         ops=[dict(mode='a', k='x', pats=[L('a')], T=1.05, gap=0), dict(mode='a', k='x', pats=[L('q')], T=1.05, gap=0)]),
]

# the two known findings, as scenarios
KNOWN_CASES = [
    # output that arrived while no call was outstanding sits in the kernel (the transport is paused); an awaited call with timeout=0 gives up
    # without looking at it, the blocking call reads it and matches
    (KNOWN_T0, dict(kind='fd', arrivals=[[0.3, 'w', 'abc']], ops=[dict(mode='a', k='x', pats=[L('zz')], T=0.2, gap=0),
                                                                  dict(mode='a', k='x', pats=[L('b')], T=0, gap=0.5)])),
    (KNOWN_T0, dict(kind='pty', arrivals=[[0.1, 'w', 'abc']], ops=[dict(mode='a', k='x', pats=[L('b')], T=0, gap=0.5)])),
    (KNOWN_T0, dict(kind='fd', arrivals=[[0.0, 'w', 'abc']], ops=[dict(mode='a', k='x', pats=[L('zz')], T=0.35, gap=0),
                                                                  dict(mode='a', k='x', pats=[L('Q'), ['T']], T=0.35, gap=0),
                                                                  dict(mode='a', k='x', pats=[L('b')], T=0, gap=0.2)])),
]


def classify(case, diff, rec=None):
    n, f, va, vb = diff
    op = case['ops'][n]
    timed_out = (va == 'TIMEOUT') or (rec is not None and (rec.get('after') == 'TIMEOUT' or rec.get('out') == 'TIMEOUT'))
    if op['mode'] == 'a' and op['T'] == 0 and timed_out and f != 'pending-vs-buffer':
        # the awaited call gave up without examining what was readable; what then differs (outcome, or only the search buffer
        # because the data was appended in the done-window instead of being searched and trimmed) is the known finding
        return KNOWN_T0
    return 'async/parity/%s' % f


def run(ctx):
    warnings.simplefilter('ignore')
    common.prove(ctx, ['C14'])
    if not ctx.quick():
        common.leanchecker(ctx, ['C14'])
    cases = list(map(copy.deepcopy, CORPUS))
    n = 250 if ctx.quick() else 3000
    for _ in range(n):
        cases.append(rand_case(ctx.rng))
    for _ in range(30 if ctx.quick() else 300):
        cases.append(rand_case(ctx.rng, allow_t0=True))
    for _ in range(40 if ctx.quick() else 400):
        cases.append(unicode_case(ctx.rng))
    for _ in range(40 if ctx.quick() else 400):
        cases.append(cancel_case(ctx.rng))
    for _ in range(30 if ctx.quick() else 300):
        cases.append(tail_case(ctx.rng))
    cases += [copy.deepcopy(c) for _, c in KNOWN_CASES]
    runs = []
    hist = collections.Counter()
    sigs = set()
    first = None
    lines = []
    for c in cases:
        try:
            with common.guard(60):
                a = run_object(c, all_sync=False)
            with common.guard(60):
                # (with small reads the twin is not comparable call by call: a blocking call leaves in the kernel what the event loop has
                # already taken into the object's buffer.  Those histories are judged by conservation alone, below)
                b = a if c.get('maxread') else run_object(c, all_sync=True)
        except common.Stuck:
            # a call that sits in a system call for good although its stream has been scripted to the end: with the virtual clock every wait
            # of the code under test goes through the interposed select / poll, so this is a read that nothing announced
            common.report(ctx, 'async/call-never-returned', 'a call of this history never returned (blocked in a read outside select / poll): %s' % json.dumps(c)[:300], dict(case=c))
            break
        runs.append((a, b))
        d = compare_twin(c, a, b)
        if c.get('maxread') and d is None:
            d = conservation(c, a)
        for r in a['recs']:
            hist[r['out'].split()[0]] += 1
        sigs.add((c['kind'], tuple((op['mode'], r['out'].split()[0], min(r['nev'], 3), bool(op.get('gap'))) for op, r in zip(c['ops'], a['recs']))))
        lines.append(model_line(c, a))
        first_eof = next((ev for ev in a['log'] if ev[0] in ('E', 'L')), None)
        eof_idle = bool(first_eof and first_eof[2])       # the stream's EOF reached the protocol with no call outstanding
        if eof_idle and (d is not None or any(r['out'].startswith('EXC') for r in a['recs'])):
            common.report(ctx, KNOWN_EOF, 'an EOF was delivered while no awaited call was outstanding; afterwards the awaited history differs from the twin '
                          '(%s)' % (d[1] if d else [r['out'] for r in a['recs'] if r['out'].startswith('EXC')][0]), dict(case=c))
            continue
        if d is None and a.get('loop_errors'):
            d = (len(a['recs']) - 1, 'exception inside the event loop', a['loop_errors'][0][:160], None)
        if d is None and a.get('wrong_type'):
            d = (len(a['recs']) - 1, 'logfile_read type', a['wrong_type'][0], 'str' if c.get('encoding') else 'bytes')
        if d is None and not c.get('encoding'):
            # logfile_read on the awaited path: everything the loop or a blocking read took from the child, once, in order -
            # also what arrived while no call was outstanding
            took = ''.join(ev[1] for ev in a['log'] if ev[0] == 'd')
            if ''.join(a['logged']) != took:
                d = (len(a['recs']) - 1, 'logfile_read', ''.join(a['logged'])[-60:], took[-60:])
        if d is not None:
            sig = classify(c, d, a['recs'][d[0]] if d[0] < len(a['recs']) else None)
            msg = 'call %d (%s, timeout=%r): %s awaited %r, blocking twin %r' % (d[0], 'awaited' if c['ops'][d[0]]['mode'] == 'a' else 'blocking', c['ops'][d[0]]['T'], d[1], d[2], d[3])
            if sig == KNOWN_T0:
                common.report(ctx, sig, msg, dict(case=c))
            elif first is None:
                first = (c, d, msg, sig)
        # an exception other than EOF / TIMEOUT is a finding unless the blocking twin ends the same call with the same exception (a read error
        # of the transport, e.g. a connection reset, is reported by both forms)
        odd = [(n, r) for n, r in enumerate(a['recs']) if r['out'].startswith('EXC') and not (n < len(b['recs']) and b['recs'][n]['out'] == r['out'])]
        if odd and first is None:
            r = odd[0][1]
            first = (c, (0, 'exception', r['out'], None), 'awaited history raised %s %s' % (r['out'], r.get('exc')), 'async/exception')
    if first:
        c, d, msg, sig = first
        common.report(ctx, sig, msg, dict(case=c, awaited=runs[cases.index(c)][0]['recs'], twin=runs[cases.index(c)][1]['recs']))
    # known finding (b): EOF picked up by the loop while no call is outstanding
    kb = known_eof_scenario()
    if kb:
        common.report(ctx, KNOWN_EOF, kb, dict(scenario='known_eof_scenario() in harness/props/c14.py'))
    # correspondence with the Lean model of mixed histories
    try:
        mouts = common.run_model(lines)
        for c, (a, b), ml in zip(cases, runs, mouts):
            if any(op['mode'] == 'a' and op['T'] == 0 for op in c['ops']):
                continue          # outside the modelled domain (known finding a)
            has_cancel = any(op['mode'] == 'c' for op in c['ops'])
            if has_cancel and any(ev[0] in ('E', 'L') for ev in a['log']):
                continue          # an end of stream on a transport left reading: the known finding (b), outside the model
            if c.get('encoding'):
                continue          # unicode mode: judged against the blocking twin (the codec is outside this model; C07)
            if c.get('maxread'):
                continue          # judged by conservation
            if any(r['out'] == 'BLOCKED' for r in a['recs']):
                continue          # a call without a time limit on a stream that has nothing more to say waits for ever: not a history of the model
            if any(r['out'].startswith('EXC') for r in a['recs']):
                continue          # a read error of the transport is not an event of the model: judged against the blocking twin
            if any(ev[0] == 'd' and ev[2] for r_ in a['recs'] for ev in a['log'][r_['n0']:r_['n1']]):
                continue          # data delivered in the done-window of a call (after its future was done, before the pause took effect)
            dm = compare_model(c, a, ml)
            ctx.cov['histories_through_model'] = ctx.cov.get('histories_through_model', 0) + 1
            if has_cancel:
                ctx.cov['abandoned_call_histories_through_model'] = ctx.cov.get('abandoned_call_histories_through_model', 0) + 1
            if dm:
                ctx.broken.append('correspondence async model vs pexpect._async on %s: %s' % (json.dumps(c)[:300], dm))
                break
            # transport paused while idle
            fin = ml.split(' | ')[-1]
            if a['fin'].get('paused') is False and not a['fin'].get('closed') and not has_cancel:
                common.report(ctx, 'async/not-paused-when-idle', 'the read transport is still reading after the last call returned', dict(case=c))
                break
    except common.ModelUnavailable as e:
        ctx.broken.append('model driver unavailable: ' + str(e)[:300])
    ctx.cov['outcome_histogram'] = dict(hist)
    ctx.cov['cases'] = len(cases)
    samples = [dict(case=cases[0], awaited=[r['out'] for r in runs[0][0]['recs']], events=runs[0][0]['log'][:8])]
    gc.collect()
    return common.finish(
        ctx,
        'corpus, then random mixed histories (awaited / blocking expect_exact / expect_list, EOF and TIMEOUT in the lists, idle gaps) x arrival '
        'schedules on a 0.1 s grid (data before the first await, between awaits, several chunks per loop turn, EOF with the last data) on pipes and ptys; '
        'the real asyncio path runs on a virtual-time selector event loop, the all-blocking twin on the virtual clock; each call is compared field by field '
        'and the recorded loop events are replayed through the Lean model; distinct = (transport, per-call (mode, outcome, events, gap))',
        samples, 2 * len(cases), len(sigs),
        assumptions=['CPython asyncio (SelectorEventLoop, unix read-pipe transport, wait_for) is the real library; only its selector waits in virtual time',
                     'parity is judged up to and including the first EOF (the awaited path closes the spawn at EOF)',
                     'awaited calls with timeout=0 are a known finding and outside the modelled domain'])


def known_eof_scenario():
    """finding (b): pending text, writer closed, an awaited call with timeout=0 then one loop turn: the EOF is delivered with the
    future already done; eof() runs on the finished expecter and the pending text is gone for the next call. Returns a message if it still happens."""
    clk = V.VClock()
    p, write, finish, ctl, cleanup = make_peer('fd', clk)
    loop = VLoop(clk)
    asyncio.set_event_loop(loop)
    loop_errors = []
    # what the loop would print (an exception inside a protocol callback, a fatal transport error) is collected instead: a read error of the
    # transport is part of some scenarios, anything else is judged
    loop.set_exception_handler(lambda l_, cx: loop_errors.append('%s: %r' % (cx.get('message'), cx.get('exception'))) if not isinstance(cx.get('exception'), OSError) else None)
    out = {}

    async def main():
        write(b'hello ')
        try:
            await p.expect_exact([b'zzz'], timeout=0.35, async_=True)
        except TIMEOUT:
            pass
        out['pending0'] = p.before
        finish()
        try:
            await p.expect_exact([b'zzz'], timeout=0, async_=True)
        except (TIMEOUT, EOF):
            pass
        await asyncio.sleep(0.01)
        try:
            i = await p.expect_exact([b'hello', EOF], timeout=0.35, async_=True)
            out['second'] = 'idx %d' % i
        except TIMEOUT:
            out['second'] = 'TIMEOUT'
        except EOF:
            out['second'] = 'EOF'
        except Exception as e:   # noqa
            out['second'] = 'EXC:' + type(e).__name__
    try:
        with V.Install(clk, 'fd', p):
            loop.run_until_complete(main())
    except Exception as e:      # noqa
        out['second'] = 'EXC:' + type(e).__name__
    finally:
        try:
            loop.close()
        except Exception:
            pass
        asyncio.set_event_loop(None)
        for c in cleanup:
            try:
                c()
            except Exception:
                pass
    if out.get('second') != 'idx 0':
        return 'pending %r; after an EOF delivered with no call outstanding the next await expect([hello, EOF]) gave %s (blocking twin: idx 0)' % (out.get('pending0'), out.get('second'))
    return None


def replay(ctx, path):
    d = json.load(open(path))
    c = d['replay'].get('case')
    if not c:
        print(known_eof_scenario())
        return 0
    a = run_object(c, False); b = run_object(c, True)
    diff = compare_twin(c, a, b)
    print(json.dumps(dict(awaited=a['recs'], twin=b['recs'], diff=diff), indent=1, default=repr))
    return 1 if diff else 0
